#!/usr/bin/env python3
"""Driver for the cctz deterministic-simulation checks.

  verif.py setup                         build every simulator variant from ${VERIF_REPO:-/repo}
  verif.py check <C12|C13|C14|C19|C20> [--tier quick|thorough]
  verif.py replay <file>                 re-execute a replay file in a fresh process
  verif.py baseline                      cmake+ctest of the repository with nothing of ours (guard off)
  verif.py selftest determinism          many seeds twice, different worker shapes

Exit status of check: 0 held on everything explored (KNOWN-FINDING lines allowed), 1 violation
(with a "VIOLATION property=<id> replay=<path>" line), 2 machinery fault (nothing it says is a verdict).
"""
import argparse
import faulthandler
import signal
import json
import os
import sys
import threading
import time

VERIF = os.path.dirname(os.path.abspath(__file__))
sys.path.insert(0, VERIF)
from vlib import build as B  # noqa: E402
from vlib import runner as R  # noqa: E402
from vlib import plans as P  # noqa: E402


def say(*a):
    print(*a, flush=True)


def write_evidence(prop, tier, seed, level, coverage, assumptions, wall, nviol):
    os.makedirs(os.path.join(VERIF, "evidence"), exist_ok=True)
    ev = dict(property_id=prop, tier=tier, seed=seed, level=level, coverage=coverage, assumptions=assumptions,
              wall_s=round(wall, 2), violations=nviol)
    path = os.path.join(VERIF, "evidence", prop + ".json")
    with open(path + ".tmp", "w") as f:
        json.dump(ev, f, indent=1)
    os.replace(path + ".tmp", path)


def cmd_setup(args):
    t0 = time.time()
    for v in B.VARIANTS:
        try:
            B.build(v)
        except RuntimeError as e:
            say("MACHINERY: build of variant %s failed\n%s" % (v, e))
            return 2
        say("built %s (%.1fs)" % (v, time.time() - t0))
    return 0


def cmd_check(args):
    prop = args.property
    tier = args.tier or os.environ.get("VERIF_TIER") or "quick"
    seed = int(os.environ.get("VERIF_SEED") or args.seed or 20261001)
    say("check %s tier=%s VERIF_SEED=%d repo=%s" % (prop, tier, seed, B.repo_root()))
    t0 = time.time()
    plan = P.plan_for(prop, tier)
    if plan is None:
        say("MACHINERY: no plan for %s" % prop)
        return 2
    try:
        for v in plan["variants"]:
            B.build(v)
    except RuntimeError as e:
        say("MACHINERY: build failed (the tree under test does not compile with the simulator)\n%s" % str(e)[:6000])
        return 2
    say("build ok (%.1fs)" % (time.time() - t0))
    outcome = P.execute_plan(prop, tier, seed, plan, say)
    wall = time.time() - t0
    # ---- verdict
    known = R.load_known()
    unlisted, listed = [], {}
    for v in outcome["violations"]:
        if v["cls"].startswith("machinery:"):
            outcome["machinery"].append("%s %s %s" % (v["cls"], v.get("site", ""), v.get("detail", "")[:300]))
            continue
        e = R.match_known(prop, v, known)
        if e is not None:
            listed.setdefault(e.get("id", e.get("what_fails", "?")), [e, 0])[1] += 1
        else:
            unlisted.append(v)
    for kid, (e, n) in listed.items():
        say("KNOWN-FINDING: property=%s %s (seen %d times this run)" % (prop, e.get("what_fails", kid), n))
    rc = 0
    reported = []
    if unlisted:
        by_class = {}
        for v in unlisted:
            by_class.setdefault(v["cls"], []).append(v)
        for cls, vs in list(by_class.items())[:3]:
            rep = P.report_violation(prop, tier, seed, cls, vs, say)
            if rep.get("machinery"):
                outcome["machinery"].append(rep["machinery"])
            else:
                reported.append(rep)
        if reported:
            rc = 1
    cov = outcome["coverage"]
    cov["violation_classes"] = sorted(set(v["cls"] for v in unlisted))[:20]
    cov["known_findings_hit"] = {k: n for k, (e, n) in listed.items()}
    cov["replays"] = [r["path"] for r in reported]
    if outcome["machinery"]:
        cov["machinery_faults"] = outcome["machinery"][:5]
    write_evidence(prop, tier, seed, plan["level"], cov, plan["assumptions"], wall, len(unlisted))
    if outcome["machinery"] and rc == 0:
        for m in outcome["machinery"][:5]:
            say("MACHINERY:", m[:1500])
        return 2
    for r in reported:
        say("VIOLATION property=%s replay=%s" % (prop, r["path"]))
        say("  class=%s site=%s" % (r["cls"], r["site"]))
    say("%s %s: %d runs, %d distinct non-trivial, %d unlisted violating classes, %.1fs" % (
        prop, tier, cov.get("evaluations", 0), cov.get("distinct_nontrivial", 0), len(set(v["cls"] for v in unlisted)), wall))
    return rc


def cmd_replay(args):
    try:
        j = json.load(open(args.file))
    except (OSError, ValueError) as e:
        say("cannot read replay file: %s" % e)
        return 2
    variant = j.get("build", "asan")
    try:
        B.build(variant)
    except RuntimeError as e:
        say("MACHINERY: build failed\n%s" % str(e)[:4000])
        return 2
    case = j.get("case", j)
    if j.get("block_replay"):
        br = j["block_replay"]
        want = j.get("class")
        if j.get("differential_with"):
            B.build(j["differential_with"])
            _, d0 = R.block_replay(variant, j["property"], j.get("tier", "quick"), j["origin_seed"], br["part"], br["start"], br["run"], want_digest=True)
            _, d1 = R.block_replay(j["differential_with"], j["property"], j.get("tier", "quick"), j["origin_seed"], br["part"], br["start"], br["run"], want_digest=True)
            say("outcome digest of run %s: %s=%s %s=%s" % (br["run"], variant, d0, j["differential_with"], d1))
            hit = d0 is not None and d1 is not None and d0 != d1
        else:
            classes, _ = R.block_replay(variant, j["property"], j.get("tier", "quick"), j["origin_seed"], br["part"], br["start"], br["run"], extra=br.get("extra", []))
            say("observed classes at run %s: %s" % (br["run"], classes))
            hit = want in classes
        if hit:
            say("REPRODUCED property=%s class=%s" % (j.get("property"), want))
            return 1
        say("no violation on this tree")
        return 0
    if j.get("under") == "valgrind":
        classes, raw = R.valgrind_case(case)
        say(raw.get("stderr", "")[-3000:])
        want = j.get("class")
        say("expected class:", want, "observed:", classes)
        if want in classes:
            say("REPRODUCED property=%s class=%s" % (j.get("property"), want))
            return 1
        say("no violation on this tree" if not classes else "a different violation occurred")
        return 0 if not classes else 2
    classes, raw = R.evaluate_case(variant, case, want_log=True, timeout=600)
    for line in (raw.get("out", {}) or {}).get("log", []):
        say(line)
    if "crash" in raw:
        say("worker died:", json.dumps(raw["crash"]))
        say(raw.get("stderr", "")[-3000:])
    want = j.get("class")
    say("expected class:", want)
    say("observed classes:", classes)
    if want and want in classes:
        say("REPRODUCED property=%s class=%s" % (j.get("property"), want))
        return 1
    if not classes:
        say("no violation on this tree")
        return 0
    say("a different violation occurred")
    return 2


def cmd_baseline(args):
    from vlib import baseline
    sys.argv = ["baseline.py", B.repo_root()]
    return baseline.main()


def cmd_selftest(args):
    from vlib import selftest
    return selftest.main(args.what, say)


def main():
    faulthandler.register(signal.SIGUSR1, all_threads=True)
    ap = argparse.ArgumentParser()
    sub = ap.add_subparsers(dest="cmd")
    sub.add_parser("setup")
    c = sub.add_parser("check")
    c.add_argument("property")
    c.add_argument("--tier", default=None)
    c.add_argument("--seed", default=None)
    r = sub.add_parser("replay")
    r.add_argument("file")
    sub.add_parser("baseline")
    s = sub.add_parser("selftest")
    s.add_argument("what")
    args = ap.parse_args()
    if args.cmd == "setup":
        return cmd_setup(args)
    if args.cmd == "check":
        return cmd_check(args)
    if args.cmd == "replay":
        return cmd_replay(args)
    if args.cmd == "baseline":
        return cmd_baseline(args)
    if args.cmd == "selftest":
        return cmd_selftest(args)
    ap.print_help()
    return 2


if __name__ == "__main__":
    sys.exit(main())
