#!/bin/bash
# Exits nonzero when the defect shows.
R=/tmp/wt-hunt-b
cd "$(dirname "$0")"
clang++ -std=c++17 -g -fsanitize=thread -I$R/include -I$R/src demo.cc \
  $R/src/{civil_time_detail,time_zone_fixed,time_zone_format,time_zone_if,time_zone_impl,time_zone_info,time_zone_libc,time_zone_lookup,time_zone_posix,zone_info_source}.cc \
  -lpthread -o demo || exit 2
export TZDIR=$R/testdata/zoneinfo
rc=0
for m in control nested fixed helper; do
  echo "=== mode $m"
  ./demo $m || rc=1
done
exit $rc
