// LoadTimeZone() holds the (non-recursive) TimeZoneLoadMutex while it runs
// user code: cctz_extension::zone_info_source_factory and the returned
// ZoneInfoSource's Read()/Skip()/Version().  Any cctz call from that user
// code that has to *create* a zone -- load_time_zone() of a name that is not
// cached yet, but also fixed_time_zone() / local_time_zone(), which never need
// the factory -- re-locks the same std::mutex: the thread deadlocks against
// itself (or, if the call is made by a helper thread the factory waits for,
// two threads deadlock against each other).
//
//   demo nested   factory("My/Alias") calls load_time_zone("America/New_York")
//   demo fixed    factory calls fixed_time_zone(+1h)  (a built-in zone)
//   demo helper   factory waits for a worker thread that calls fixed_time_zone(+2h)
//   demo control  like "nested", but America/New_York was loaded earlier: works
#include <atomic>
#include <chrono>
#include <cstdio>
#include <cstdlib>
#include <future>
#include <string>
#include <thread>
#include "cctz/time_zone.h"
#include "cctz/zone_info_source.h"

static std::string mode;
static std::atomic<int> factory_calls{0};

namespace cctz_extension {
namespace {
std::unique_ptr<cctz::ZoneInfoSource> Factory(
    const std::string& name,
    const std::function<std::unique_ptr<cctz::ZoneInfoSource>(
        const std::string&)>& fallback) {
  ++factory_calls;
  std::fprintf(stderr, "  factory(\"%s\") entered\n", name.c_str());
  if (name == "My/Alias") {
    if (mode == "nested" || mode == "control") {
      // Resolve the alias: check that the target exists, then serve its data.
      cctz::time_zone target;
      bool ok = cctz::load_time_zone("America/New_York", &target);
      std::fprintf(stderr, "  nested load_time_zone returned %d\n", ok);
    } else if (mode == "fixed") {
      cctz::time_zone f = cctz::fixed_time_zone(std::chrono::hours(1));
      std::fprintf(stderr, "  fixed_time_zone returned %s\n", f.name().c_str());
    } else if (mode == "helper") {
      // e.g. an I/O worker that timestamps its log lines.
      auto fut = std::async(std::launch::async, [] {
        return cctz::fixed_time_zone(std::chrono::hours(2)).name();
      });
      std::fprintf(stderr, "  worker returned %s\n", fut.get().c_str());
    }
    return fallback("America/New_York");
  }
  return fallback(name);
}
}  // namespace
ZoneInfoSourceFactory zone_info_source_factory = Factory;
}  // namespace cctz_extension

int main(int argc, char** argv) {
  mode = argc > 1 ? argv[1] : "nested";
  if (mode == "control") {
    cctz::time_zone warm;
    cctz::load_time_zone("America/New_York", &warm);
  }
  std::atomic<bool> done{false};
  std::thread t([&] {
    cctz::time_zone tz;
    bool ok = cctz::load_time_zone("My/Alias", &tz);
    std::fprintf(stderr, "  load_time_zone(\"My/Alias\") returned %d (%s)\n", ok,
                 tz.name().c_str());
    done = true;
  });
  for (int i = 0; i < 50 && !done; ++i)
    std::this_thread::sleep_for(std::chrono::milliseconds(100));
  if (!done) {
    std::fprintf(stderr,
                 "DEADLOCK[%s]: load_time_zone() has not returned after 5s "
                 "(factory calls so far: %d)\n",
                 mode.c_str(), factory_calls.load());
    std::_Exit(1);
  }
  t.join();
  std::fprintf(stderr, "ok[%s]\n", mode.c_str());
  return 0;
}
