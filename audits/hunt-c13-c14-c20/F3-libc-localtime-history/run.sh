#!/bin/bash
# Exits nonzero when the defect shows.
R=/tmp/wt-hunt-b
cd "$(dirname "$0")"
g++ -std=c++17 -g -fsanitize=address,undefined -I$R/include -I$R/src demo.cc \
  $R/src/{civil_time_detail,time_zone_fixed,time_zone_format,time_zone_if,time_zone_impl,time_zone_info,time_zone_libc,time_zone_lookup,time_zone_posix,zone_info_source}.cc \
  -lpthread -o demo || exit 2
export TZDIR=$R/testdata/zoneinfo
for m in none civil format; do echo "=== extra earlier call: $m"; ./demo $m | tee out.$m; done
a=$(grep second out.none); b=$(grep second out.civil); c=$(grep second out.format)
rm -f out.none out.civil out.format
if [ "$a" != "$b" ] || [ "$a" != "$c" ]; then
  echo "DEFECT: the same lookup on the same handle answered differently depending on earlier, unrelated calls"
  exit 1
fi
exit 0
