// "libc:localtime" answers absolute->civil queries with localtime_r(), which
// in glibc uses whatever zone state the last tzset() left behind, while its
// civil->absolute queries use mktime(), which calls tzset() (and so does the
// strftime() that cctz::format() falls back to for e.g. "%^Z" or "%Es").  The same
// lookup on the same handle therefore gives different answers depending on
// which *other* cctz calls ran earlier in the process.
//
//   argv[1] = none    : no extra call
//           = civil   : one unrelated tz.lookup(civil_second) before the query
//           = format  : one unrelated format("%^Z", ..., utc_time_zone()) before it
//
// Everything else (arguments, environment changes, their order) is identical.
#include <cstdio>
#include <cstdlib>
#include <cstring>
#include <string>
#include "cctz/time_zone.h"
using namespace cctz;

int main(int argc, char** argv) {
  const std::string mode = argc > 1 ? argv[1] : "none";
  setenv("TZ", "America/New_York", 1);
  time_zone tz;
  if (!load_time_zone("libc:localtime", &tz)) return 2;
  const auto tp = time_point<seconds>(seconds(1700000000));
  const char* const kFmt = "%Y-%m-%d %H:%M:%S %z %Z";
  std::printf("first  lookup: %s\n", format(kFmt, tp, tz).c_str());
  setenv("TZ", "Asia/Tokyo", 1);  // the process zone changes (in all three modes)
  if (mode == "civil") (void)tz.lookup(civil_second(2000, 1, 1, 0, 0, 0));
  if (mode == "format") (void)format("%^Z", tp, utc_time_zone());
  std::printf("second lookup: %s\n", format(kFmt, tp, tz).c_str());
  return 0;
}
