// When the user factory (or the ZoneInfoSource it returned) throws, the
// exception unwinds through time_zone::Impl::LoadTimeZone() before anything
// is recorded in time_zone_map.  The failed name is not remembered, *tz is
// not set to UTC, and the next load_time_zone() of the same name calls the
// factory a second time -- and may now succeed.
#include <cstdio>
#include <map>
#include <stdexcept>
#include <string>
#include "cctz/time_zone.h"
#include "cctz/zone_info_source.h"

static std::map<std::string, int> calls;
static bool fail_now = true;

namespace cctz_extension {
namespace {
std::unique_ptr<cctz::ZoneInfoSource> Factory(
    const std::string& name,
    const std::function<std::unique_ptr<cctz::ZoneInfoSource>(
        const std::string&)>& fallback) {
  const int n = ++calls[name];
  std::printf("  factory(\"%s\") call #%d\n", name.c_str(), n);
  if (fail_now) throw std::runtime_error("transient I/O error");
  return fallback(name);
}
}  // namespace
ZoneInfoSourceFactory zone_info_source_factory = Factory;
}  // namespace cctz_extension

int main() {
  cctz::time_zone sentinel = cctz::fixed_time_zone(std::chrono::hours(5));
  cctz::time_zone a = sentinel, b = sentinel;
  bool threw = false;
  try {
    cctz::load_time_zone("Europe/London", &a);
  } catch (const std::exception& e) {
    threw = true;
    std::printf("  1st load_time_zone threw: %s; *tz is %s\n", e.what(),
                a.name().c_str());
  }
  fail_now = false;
  const bool ok = cctz::load_time_zone("Europe/London", &b);
  std::printf("  2nd load_time_zone returned %d, *tz is %s, factory calls for the name: %d\n",
              ok, b.name().c_str(), calls["Europe/London"]);
  int bad = 0;
  if (calls["Europe/London"] > 1) { ++bad; std::printf("DEFECT: factory invoked %d times for one zone name\n", calls["Europe/London"]); }
  if (threw && ok) { ++bad; std::printf("DEFECT: a name whose load failed did not keep failing\n"); }
  if (threw && !(a == cctz::utc_time_zone())) { ++bad; std::printf("DEFECT: result of the failed load was not set to UTC\n"); }
  return bad ? 1 : 0;
}
