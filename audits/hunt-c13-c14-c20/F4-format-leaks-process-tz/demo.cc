// format() hands every conversion it does not recognise to strftime() with a
// struct tm whose tm_zone/tm_gmtoff are unset.  For flag/modifier spellings
// of %Z, %z and %s (e.g. %^Z, %10Z, %_z, %Es, %Os) glibc then substitutes the
// *process* time zone ($TZ, re-read by strftime()'s implicit tzset()) for the
// cctz::time_zone argument.  The result therefore depends on process state
// rather than on (format, time point, zone).
#include <cstdio>
#include <cstdlib>
#include <string>
#include "cctz/time_zone.h"
using namespace cctz;

int main() {
  time_zone tokyo;
  if (!load_time_zone("Asia/Tokyo", &tokyo)) return 2;
  const auto tp = time_point<seconds>(seconds(1700000000));
  const char* const kFmt = "%Es|%Os|%^Z|%10Z|%_z|%Oz";

  setenv("TZ", "America/New_York", 1);
  const std::string a1 = format(kFmt, tp, tokyo);
  setenv("TZ", "Europe/Paris", 1);
  const std::string a2 = format(kFmt, tp, tokyo);  // same arguments, same zone object
  const std::string want = format("%s|%s|%Z|%Z|%z|%z", tp, tokyo);  // what the zone's data says

  std::printf("format(\"%s\", 1700000000, Asia/Tokyo)\n", kFmt);
  std::printf("  1st call (process TZ=America/New_York): %s\n", a1.c_str());
  std::printf("  2nd call (process TZ=Europe/Paris)    : %s\n", a2.c_str());
  std::printf("  from the zone's own data              : %s\n", want.c_str());
  int bad = 0;
  if (a1 != a2) { ++bad; std::printf("DEFECT: two identical format() calls on the same zone returned different strings\n"); }
  if (a1.compare(0, 10, "1700000000") != 0) { ++bad; std::printf("DEFECT: %%Es is not the time point's epoch seconds (mktime() in the process zone was applied)\n"); }
  return bad ? 1 : 0;
}
