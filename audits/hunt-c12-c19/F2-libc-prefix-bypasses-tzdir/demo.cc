// F2: names beginning with "libc:" are never resolved relative to $TZDIR and
// never fail: load_time_zone() returns true for ANY "libc:<anything>".
#include <chrono>
#include <cstdio>
#include <cstdlib>
#include <string>
#include "cctz/time_zone.h"

static int bad = 0;
static const auto kWhen = std::chrono::system_clock::from_time_t(1700000000);

int main(int argc, char** argv) {
  const std::string dir = argv[1];  // a $TZDIR holding "libc:Tokyo" (= Asia/Tokyo) and "Tokyo"
  setenv("TZDIR", dir.c_str(), 1);
  setenv("TZ", "America/Los_Angeles", 1);  // only to show that libc:localtime follows libc, not TZDIR

  cctz::time_zone ref, tz;
  bool ok = cctz::load_time_zone("Tokyo", &ref);
  std::printf("control  'Tokyo'          -> %d offset=%d (file $TZDIR/Tokyo is used)\n", ok,
              ref.lookup(kWhen).offset);

  // (a) A file $TZDIR/libc:Tokyo exists, yet it is not what gets loaded.
  ok = cctz::load_time_zone("libc:Tokyo", &tz);
  auto al = tz.lookup(kWhen);
  std::printf("(a) 'libc:Tokyo'          -> %d name='%s' offset=%d abbr='%s' ==UTC:%d\n", ok,
              tz.name().c_str(), al.offset, al.abbr, tz == cctz::utc_time_zone());
  if (!ok || al.offset != 32400) { std::printf("    VIOLATION: $TZDIR/libc:Tokyo (UTC+9) was not used\n"); ++bad; }

  // (b) No file, nothing resolvable: must be (false, UTC) but is (true, non-UTC object).
  ok = cctz::load_time_zone("libc:No/Such/Zone", &tz);
  std::printf("(b) 'libc:No/Such/Zone'   -> %d name='%s' ==UTC:%d\n", ok, tz.name().c_str(),
              tz == cctz::utc_time_zone());
  if (ok || tz != cctz::utc_time_zone()) { std::printf("    VIOLATION: unresolvable name returned true / not UTC\n"); ++bad; }

  // (c) "libc:localtime" follows the C library's notion of local time.
  ok = cctz::load_time_zone("libc:localtime", &tz);
  al = tz.lookup(kWhen);
  std::printf("(c) 'libc:localtime'      -> %d name='%s' offset=%d abbr='%s'\n", ok, tz.name().c_str(),
              al.offset, al.abbr);
  if (ok) { std::printf("    VIOLATION: no $TZDIR/libc:localtime exists, yet the load succeeded\n"); ++bad; }

  std::printf("%d violation(s)\n", bad);
  return bad ? 1 : 0;
}
