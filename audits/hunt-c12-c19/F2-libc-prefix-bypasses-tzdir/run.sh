#!/bin/sh
# Exits nonzero when the defect shows.
set -e
cd "$(dirname "$0")"
R=/tmp/wt-hunt-a
rm -rf tzdir && mkdir -p tzdir
cp $R/testdata/zoneinfo/Asia/Tokyo "tzdir/libc:Tokyo"
cp $R/testdata/zoneinfo/Asia/Tokyo "tzdir/Tokyo"
mkdir -p tzdir/America && cp $R/testdata/zoneinfo/America/Los_Angeles tzdir/America/
g++ -std=c++17 -g -fsanitize=address,undefined -fno-sanitize-recover=undefined \
  -I$R/include -I$R/src demo.cc \
  $R/src/civil_time_detail.cc $R/src/time_zone_fixed.cc $R/src/time_zone_format.cc \
  $R/src/time_zone_if.cc $R/src/time_zone_impl.cc $R/src/time_zone_info.cc \
  $R/src/time_zone_libc.cc $R/src/time_zone_lookup.cc $R/src/time_zone_posix.cc \
  $R/src/zone_info_source.cc -o demo
set +e
./demo "$PWD/tzdir"
rc=$?
echo "demo exit code: $rc"
exit $rc
