// F1: names with embedded NUL bytes are accepted as fixed-offset zone names
// (and, for file names, silently truncated), instead of failing to UTC.
#include <chrono>
#include <cstdio>
#include <cstdlib>
#include <string>
#include "cctz/time_zone.h"

static std::string Show(const std::string& s) {
  std::string r;
  for (char c : s) { if (c == '\0') r += "\\0"; else r += c; }
  return r;
}

static int bad = 0;

// A name that is not one of the documented forms and does not name a file
// under $TZDIR must yield (false, UTC).
static void ExpectUnresolvable(const std::string& name) {
  cctz::time_zone tz;
  const bool ok = cctz::load_time_zone(name, &tz);
  const auto al = tz.lookup(std::chrono::system_clock::from_time_t(1700000000));
  const bool is_utc = (tz == cctz::utc_time_zone());
  const bool violates = ok || !is_utc;
  std::printf("%-28s -> returned %s, zone==UTC:%d, name()='%s', offset=%+d, abbr='%s'%s\n",
              Show(name).c_str(), ok ? "true" : "false", is_utc,
              Show(tz.name()).c_str(), al.offset, al.abbr,
              violates ? "   <-- VIOLATION (expected false + UTC)" : "");
  if (violates) ++bad;
}

int main() {
  // An empty directory: nothing can be resolved relative to $TZDIR.
  setenv("TZDIR", "/tmp/wt-hunt-a/_out/F1-fixed-name-embedded-nul/empty-tzdir", 1);

  // Controls: malformed fixed-offset names without NULs are correctly rejected.
  ExpectUnresolvable("Fixed/UTC+0x:00:00");
  ExpectUnresolvable("Fixed/UTC+0 :00:00");
  ExpectUnresolvable("Fixed/UTC+1:00:00");

  // "Fixed/UTC+0\0:00:00": Parse02d() treats the NUL as the digit "10",
  // so hours = 0*10 + 10 = 10  ->  a zone at UTC+10:00:00.
  ExpectUnresolvable(std::string("Fixed/UTC+0\0:00:00", 18));
  // hours = 1*10 + 10 = 20.
  ExpectUnresolvable(std::string("Fixed/UTC+1\0:00:00", 18));
  // minutes = 10*10 + 10 = 110  ->  UTC+01:50:00.
  ExpectUnresolvable(std::string("Fixed/UTC+00:\0\0:00", 18));
  // seconds = 0*10 + 10  ->  UTC-00:00:10.
  ExpectUnresolvable(std::string("Fixed/UTC-00:00:0\0", 18));

  // Same root cause family (C string handling of std::string names): the file
  // path is cut at the NUL, so a name that names no file resolves anyway.
  setenv("TZDIR", "/tmp/wt-hunt-a/testdata/zoneinfo", 1);
  ExpectUnresolvable(std::string("America/New_York\0/no/such/zone", 30));

  std::printf("%d violation(s)\n", bad);
  return bad ? 1 : 0;
}
