#!/usr/bin/env python3
"""Soundness regression: changes to cctz that keep every property must raise no alarm.

Each /verif/soundness/<name>.diff is applied to a scratch copy of /repo's include/ and src/ under /dev/shm
(removed afterwards) and the quick checks named in soundness/index.json are run against the copy through
VERIF_REPO; every one of them must exit 0.  Evidence and replays of the real tree are preserved.
usage: sound_check.py [name ...]
"""
import json, os, shutil, subprocess, sys, tempfile, time

VERIF = os.path.dirname(os.path.dirname(os.path.abspath(__file__)))

def main():
    idx = json.load(open(os.path.join(VERIF, "soundness", "index.json")))
    only = sys.argv[1:]
    keep = tempfile.mkdtemp(prefix="verif-keep-", dir="/dev/shm")
    for sub in ("evidence", "replays"):
        shutil.copytree(os.path.join(VERIF, sub), os.path.join(keep, sub))
    bad = 0
    try:
        for e in idx:
            if only and e["name"] not in only:
                continue
            d = tempfile.mkdtemp(prefix="cctz-sound-", dir="/dev/shm")
            try:
                for sub in ("include", "src"):
                    shutil.copytree(os.path.join("/repo", sub), os.path.join(d, sub))
                os.symlink("/repo/testdata", os.path.join(d, "testdata"))
                p = subprocess.run(["patch", "-p1", "-s", "-d", d, "-i", os.path.join(VERIF, "soundness", e["name"] + ".diff")], capture_output=True, text=True)
                if p.returncode != 0:
                    print("%-28s PATCH DOES NOT APPLY: %s" % (e["name"], (p.stdout + p.stderr).strip()[:300]), flush=True)
                    bad += 1
                    continue
                for prop in e["checks"]:
                    t0 = time.time()
                    r = subprocess.run([os.path.join(VERIF, "verif.py"), "check", prop], capture_output=True, text=True, env=dict(os.environ, VERIF_REPO=d))
                    tail = [l for l in r.stdout.split("\n") if l.startswith(("VIOLATION", "MACHINERY", "  class="))]
                    print("%-28s %s rc=%d %.0fs %s" % (e["name"], prop, r.returncode, time.time() - t0, " | ".join(tail)[:300]), flush=True)
                    bad += r.returncode != 0
            finally:
                shutil.rmtree(d, ignore_errors=True)
    finally:
        for sub in ("evidence", "replays"):
            shutil.rmtree(os.path.join(VERIF, sub), ignore_errors=True)
            shutil.copytree(os.path.join(keep, sub), os.path.join(VERIF, sub))
        shutil.rmtree(keep, ignore_errors=True)
        subprocess.run([os.path.join(VERIF, "verif.py"), "setup"], capture_output=True)   # binaries of the real tree again
    return 1 if bad else 0

if __name__ == "__main__":
    sys.exit(main())
