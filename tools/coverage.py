#!/usr/bin/env python3
"""Reach measurement: which lines and branches of cctz do the simulated workloads execute?

Builds the 'cov' variant (library with clang source-based coverage, harness plain), runs every worker
stage of the quick plans with it (capped run counts), merges the profiles and prints per-file totals
plus the uncovered lines of the files the claimed properties are anchored in.  Output goes to
/verif/coverage/ (summary.txt, uncovered.txt).  Not part of any check; a tool for tuning workloads.
"""
import glob
import os
import shutil
import subprocess
import sys
import tempfile

VERIF = os.path.dirname(os.path.dirname(os.path.abspath(__file__)))
sys.path.insert(0, VERIF)
from vlib import build as B  # noqa: E402
from vlib import plans as P  # noqa: E402
from vlib import runner as R  # noqa: E402


def main():
    cap = int(sys.argv[1]) if len(sys.argv) > 1 else 20000
    props = sys.argv[2].split(",") if len(sys.argv) > 2 else ["C12", "C13", "C14", "C19", "C20"]
    binary = B.build("cov")
    work = tempfile.mkdtemp(prefix="verif-cov-", dir="/dev/shm")
    outdir = os.path.join(VERIF, "coverage")
    os.makedirs(outdir, exist_ok=True)
    try:
        for prop in props:
            os.environ["LLVM_PROFILE_FILE"] = os.path.join(work, prop + "-%8m.profraw")
            plan = P.plan_for(prop, "quick")
            for st in plan["stages"]:
                if st["kind"] not in ("worker", "digestdiff"):
                    continue
                runs = st["runs"]
                if runs < 0:
                    runs = P.part_size("cov", prop, st["part"], "quick")
                runs = min(runs, cap)
                res = R.run_stage("cov", prop, "quick", 1, st["part"], runs, min(st["block"], 500), extra=st.get("extra", ()), samples=0)
                print("%s %-24s runs=%d violations=%d machinery=%d" % (prop, st["name"], res.runs, len(res.violations), len(res.machinery)), flush=True)
        del os.environ["LLVM_PROFILE_FILE"]
        repo = B.repo_root()
        srcs = B.lib_sources(repo)
        for group in props + ["all"]:
            raws = glob.glob(os.path.join(work, ("" if group == "all" else group + "-") + "*.profraw"))
            if not raws:
                continue
            prof = os.path.join(work, group + ".profdata")
            subprocess.run(["llvm-profdata-14", "merge", "-sparse", "-o", prof] + raws, check=True)
            rep = subprocess.run(["llvm-cov-14", "report", binary, "-instr-profile=" + prof] + srcs, capture_output=True, text=True)
            with open(os.path.join(outdir, "summary-%s.txt" % group), "w") as f:
                f.write(rep.stdout)
            if group == "all":
                print(rep.stdout)
                show = subprocess.run(["llvm-cov-14", "show", binary, "-instr-profile=" + prof, "-show-branches=count", "-show-line-counts-or-regions"] + srcs,
                                      capture_output=True, text=True)
                unc = []
                cur = ""
                for line in show.stdout.split("\n"):
                    if line.startswith("/") and line.endswith(":"):
                        cur = os.path.basename(line[:-1])
                        continue
                    parts = line.split("|", 2)
                    if len(parts) == 3 and parts[1].strip() == "0":
                        unc.append("%s:%s: %s" % (cur, parts[0].strip(), parts[2].rstrip()))
                with open(os.path.join(outdir, "uncovered.txt"), "w") as f:
                    f.write("\n".join(unc) + "\n")
                print("uncovered lines: %d (see coverage/uncovered.txt)" % len(unc))
    finally:
        shutil.rmtree(work, ignore_errors=True)
        shutil.rmtree(os.path.join(B.BUILD, "cov"), ignore_errors=True)
    return 0


if __name__ == "__main__":
    sys.exit(main())
