#!/usr/bin/env python3
"""Re-run the registered quick check against every seeded change in /verif/seeded (or the ids given).

For each: git -C /repo apply (3-way if the tree has moved on, in which case patch.diff is regenerated against
the current HEAD and the original kept as patch.orig.diff), ./verif.py check <property>, git -C /repo checkout -- .
Records the outcome in meta.json under "recheck".  Evidence and replays of the real tree are preserved.
"""
import glob, json, os, shutil, subprocess, sys, time

def sh(cmd, cwd=None, timeout=3600):
    p = subprocess.run(cmd, shell=True, cwd=cwd, capture_output=True, text=True, timeout=timeout)
    return p.returncode, p.stdout + p.stderr

def main():
    only = sys.argv[1:]
    rc, o = sh("git -C /repo status --porcelain -- src include")
    if o.strip():
        print("refusing: /repo has local changes"); return 2
    head = sh("git -C /repo rev-parse --short HEAD")[1].strip()
    vhead = sh("git -C /verif rev-parse --short HEAD")[1].strip()
    keep = "/dev/shm/keep-recheck"
    shutil.rmtree(keep, ignore_errors=True)
    shutil.copytree("/verif/evidence", keep + "/evidence"); shutil.copytree("/verif/replays", keep + "/replays")
    summary = []
    try:
        for d in sorted(glob.glob("/verif/seeded/*")):
            sid = os.path.basename(d)
            if only and not any(sid.startswith(x) for x in only):
                continue
            patch = os.path.join(d, "patch.diff")
            meta = json.load(open(os.path.join(d, "meta.json")))
            if not os.path.exists(patch) or "duplicate" in sid:
                continue
            prop = meta["property"]
            rebased = False
            rc, o = sh("git -C /repo apply " + patch)
            if rc != 0:
                rc, o = sh("git -C /repo apply --3way " + patch)
                if rc != 0:
                    sh("git -C /repo reset -q --hard HEAD")
                    summary.append((sid, "PATCH DOES NOT APPLY")); continue
                sh("git -C /repo reset -q")
                if not os.path.exists(os.path.join(d, "patch.orig.diff")):
                    shutil.copy(patch, os.path.join(d, "patch.orig.diff"))
                rc2, diff = sh("git -C /repo diff -- src include")
                open(patch, "w").write(diff)
                rebased = True
            try:
                t0 = time.time()
                rc, o = sh("./verif.py check %s --tier quick" % prop, cwd="/verif", timeout=3000)
                tail = [l for l in o.strip().split("\n") if l.startswith(("VIOLATION", "  class=", "MACHINERY", "KNOWN"))][:6]
                meta["recheck"] = dict(verif_commit=vhead + "+wt", repo_head=head, check_rc=rc, detected=(rc == 1), wall_s=round(time.time() - t0, 1), output=tail, patch_rebased=rebased)
                if rc == 1:
                    meta["detected"] = True
                json.dump(meta, open(os.path.join(d, "meta.json"), "w"), indent=1)
                cls = tail[1].split("class=")[1][:70] if len(tail) > 1 and "class=" in tail[1] else ""
                summary.append((sid, "rc=%d %s %s" % (rc, "(rebased) " if rebased else "", cls)))
                print(sid, summary[-1][1], flush=True)
            finally:
                sh("git -C /repo reset -q --hard HEAD")
    finally:
        for sub in ("evidence", "replays"):
            shutil.rmtree("/verif/" + sub, ignore_errors=True); shutil.copytree(keep + "/" + sub, "/verif/" + sub)
        shutil.rmtree(keep, ignore_errors=True)
    bad = [s for s in summary if not s[1].startswith("rc=1")]
    print("rechecked %d seeded changes; not detected: %s" % (len(summary), bad))
    return 0 if not bad else 1

sys.exit(main())
