#!/usr/bin/env python3
"""Confirm a seeded breaking change and run the registered check against it.

usage: seed_eval.py <seed-id> <property> <worktree> [--needs "..."]
  1. in <worktree>: the existing tests pass with the change; the demonstration fails with it and passes without it
  2. copies patch.diff + demonstration + notes into /verif/seeded/<seed-id>/
  3. applies the patch to /repo, runs ./verif.py check <property> (quick), undoes it straight away
  4. writes /verif/seeded/<seed-id>/meta.json
"""
import json, os, shutil, subprocess, sys, time

def sh(cmd, cwd=None, timeout=3600, env=None):
    p = subprocess.run(cmd, shell=True, cwd=cwd, capture_output=True, text=True, timeout=timeout, env=env)
    return p.returncode, p.stdout + p.stderr

def main():
    sid, prop, wt = sys.argv[1:4]
    needs = sys.argv[5] if len(sys.argv) > 5 and sys.argv[4] == "--needs" else ""
    out = os.path.join(wt, "_out")
    dest = os.path.join("/verif/seeded", sid)
    os.makedirs(dest, exist_ok=True)
    meta = dict(id=sid, property=prop, needs=needs, ran=[])
    earlier = []
    try:
        old = json.load(open(os.path.join(dest, "meta.json")))
        earlier = old.get("earlier_runs", []) + [dict(detected=old.get("detected"), check_rc=old.get("check_rc"), verif_commit=old.get("verif_commit"), check_output_tail=old.get("check_output_tail"))]
    except Exception:
        pass
    meta["earlier_runs"] = earlier
    meta["verif_commit"] = subprocess.run("git -C /verif rev-parse --short HEAD", shell=True, capture_output=True, text=True).stdout.strip() + "+working-tree"
    patch = os.path.join(out, "patch.diff")
    # state: worktree has the change applied
    rc, o = sh("git diff --stat -- src include", cwd=wt)
    meta["diffstat"] = o.strip()
    rc, o = sh("cmake -G Ninja -S . -B _b -DCMAKE_BUILD_TYPE=RelWithDebInfo -DCMAKE_CXX_FLAGS=-Wno-error >/dev/null && cmake --build _b -j16 >/dev/null && ctest --test-dir _b -j8 2>&1 | tail -3", cwd=wt)
    meta["tests_with_change"] = "pass" if "100% tests passed" in o else "FAIL"
    meta["ran"].append("cmake+ctest in worktree with the change: " + o.strip().split("\n")[-1] if o.strip() else "")
    rc_with, o_with = sh("bash _out/run_demo.sh", cwd=wt, timeout=1200)
    meta["demo_with_change_rc"] = rc_with
    sh("git checkout -- src include", cwd=wt)
    rc_without, o_without = sh("bash _out/run_demo.sh", cwd=wt, timeout=1200)
    meta["demo_without_change_rc"] = rc_without
    sh("git apply _out/patch.diff", cwd=wt)
    meta["ran"].append("bash _out/run_demo.sh with change: rc=%d; without: rc=%d" % (rc_with, rc_without))
    meta["confirmed"] = meta["tests_with_change"] == "pass" and rc_with != 0 and rc_without == 0
    for f in os.listdir(out):
        p = os.path.join(out, f)
        if os.path.isfile(p) and os.path.getsize(p) < 2_000_000 and not os.access(p, os.X_OK) or f.endswith(".sh"):
            shutil.copy(p, os.path.join(dest, f))
    # run our check against it
    rc, o = sh("git -C /repo status --porcelain -- src include")
    if o.strip():
        print("refusing: /repo has local changes"); return 2
    rc, o = sh("git -C /repo apply " + patch)
    if rc != 0:
        meta["apply_error"] = o
    else:
        try:
            t0 = time.time()
            keep = "/dev/shm/keep-" + sid
            shutil.rmtree(keep, ignore_errors=True)
            shutil.copytree("/verif/evidence", keep + "/evidence"); shutil.copytree("/verif/replays", keep + "/replays")
            rc, o = sh("./verif.py check %s --tier quick" % prop, cwd="/verif", timeout=3000)
            meta["check_rc"] = rc
            meta["check_wall_s"] = round(time.time() - t0, 1)
            meta["check_output_tail"] = [l for l in o.strip().split("\n") if l.startswith(("VIOLATION", "  class=", "MACHINERY", "KNOWN")) or "stage" in l][-14:]
            meta["detected"] = rc == 1
            # keep the replay files produced against the seeded change next to it
            for l in o.split("\n"):
                if l.startswith("VIOLATION"):
                    rp = l.split("replay=")[1].strip()
                    if os.path.exists(rp):
                        shutil.copy(rp, os.path.join(dest, "replay-" + os.path.basename(rp)))
        finally:
            sh("git -C /repo reset -q --hard HEAD")
            for sub in ("evidence", "replays"):
                shutil.rmtree("/verif/" + sub, ignore_errors=True); shutil.copytree(keep + "/" + sub, "/verif/" + sub)
            shutil.rmtree(keep, ignore_errors=True)
    meta["ran"].append("git -C /repo apply patch.diff; ./verif.py check %s --tier quick; git -C /repo checkout -- ." % prop)
    json.dump(meta, open(os.path.join(dest, "meta.json"), "w"), indent=1)
    print(json.dumps({k: meta[k] for k in ("id", "confirmed", "detected", "check_rc", "check_wall_s") if k in meta}))
    for l in meta.get("check_output_tail", []): print("   ", l[:220])
    return 0

sys.exit(main())
