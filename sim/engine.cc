#include "engine.h"

#include <dirent.h>
#include <sys/stat.h>

#include <algorithm>

#include "cctz/civil_time.h"
#include "cctz/time_zone.h"
#include "time_zone_impl.h"  // /repo/src: the library's own test-only cache reset
#include "seams.h"
#include "tzif.h"

namespace sim { TzData synthx_zone(uint64_t seed); }

namespace sim {

const std::string& repo_root() {
  static std::string root = [] {
    const char* e = secure_getenv("VERIF_REPO");  // not the wrapped getenv
    return std::string(e && *e ? e : "/repo");
  }();
  return root;
}

static void walk(const std::string& dir, const std::string& rel, std::vector<std::string>* out) {
  DIR* d = opendir(dir.c_str());
  if (!d) return;
  while (dirent* e = readdir(d)) {
    std::string n = e->d_name;
    if (n == "." || n == "..") continue;
    std::string p = dir + "/" + n, r = rel.empty() ? n : rel + "/" + n;
    struct stat st;
    if (stat(p.c_str(), &st) != 0) continue;
    if (S_ISDIR(st.st_mode)) walk(p, r, out);
    else if (S_ISREG(st.st_mode)) out->push_back(r);
  }
  closedir(d);
}

static std::map<std::string, std::string>& file_cache() { static std::map<std::string, std::string> m; return m; }

const std::string& shipped_bytes(const std::string& rel) {
  auto& m = file_cache();
  auto it = m.find(rel);
  if (it != m.end()) return it->second;
  std::string b;
  const bool was_active = fs.active;   // the harness's own file reads never go through the simulated file system
  fs.active = false;
  read_file(repo_root() + "/testdata/zoneinfo/" + rel, &b);
  fs.active = was_active;
  return m[rel] = b;
}

const std::vector<std::string>& shipped_names() {
  static std::vector<std::string> names = [] {
    std::vector<std::string> all, ok;
    walk(repo_root() + "/testdata/zoneinfo", "", &all);
    std::sort(all.begin(), all.end());
    for (const std::string& n : all) {
      const std::string& b = shipped_bytes(n);
      if (b.size() >= 44 && b.compare(0, 4, "TZif") == 0) ok.push_back(n);
    }
    return ok;
  }();
  return names;
}

static int hexv(char c) { return c <= '9' ? c - '0' : (c | 32) - 'a' + 10; }

std::string base_bytes(const std::string& base) {
  if (base.compare(0, 8, "shipped:") == 0) return shipped_bytes(base.substr(8));
  if (base.compare(0, 6, "synth:") == 0) return write_tzif(synth_zone(strtoull(base.c_str() + 6, nullptr, 10)));
  if (base.compare(0, 7, "synthx:") == 0) return write_tzif(synthx_zone(strtoull(base.c_str() + 7, nullptr, 10)));
  if (base.compare(0, 7, "marker:") == 0) {
    size_t c1 = base.find(':', 7);
    std::string abbr = base.substr(7, c1 - 7);
    size_t c2 = base.find(':', c1 + 1);
    int32_t off = static_cast<int32_t>(strtol(base.c_str() + c1 + 1, nullptr, 10));
    char ver = (c2 == std::string::npos) ? '2' : base[c2 + 1];
    if (ver == '1') ver = '\0';
    return write_tzif(marker_zone(abbr, off, ver));
  }
  if (base.compare(0, 4, "hex:") == 0) {
    std::string out;
    for (size_t i = 4; i + 1 < base.size(); i += 2) out.push_back(static_cast<char>(hexv(base[i]) * 16 + hexv(base[i + 1])));
    return out;
  }
  return std::string();
}

bool g_cold_start = false;

void clear_zone_cache() {
  if (g_cold_start) return;   // cold-start runs are the first and only execution of their process
  cctz::time_zone::Impl::ClearTimeZoneMapTestOnly();
  // The built-in UTC zone is process-wide and keeps its two hint indices from run to run.  Put them in
  // a canonical state through the public API so that a run's trace never depends on process history.
  const cctz::time_zone utc = cctz::utc_time_zone();
  (void)utc.lookup(cctz::time_point<cctz::seconds>(cctz::seconds(0)));
  (void)utc.lookup(cctz::civil_second(1970, 1, 1, 0, 0, 0));
}

std::string strip_salt(const std::string& s, const std::string& salt) {
  if (salt.empty()) return s;
  std::string out = s;
  size_t p;
  while ((p = out.find(salt)) != std::string::npos) out.replace(p, salt.size(), "#");
  return out;
}

bool builtin_name(const std::string& n, int64_t* off) {
  if (n == "UTC" || n == "UTC0") { *off = 0; return true; }
  if (n.size() != 18 || n.compare(0, 9, "Fixed/UTC") != 0) return false;
  const char* p = n.c_str() + 9;
  if ((p[0] != '+' && p[0] != '-') || p[3] != ':' || p[6] != ':') return false;
  for (int i : {1, 2, 4, 5, 7, 8}) if (p[i] < '0' || p[i] > '9') return false;
  int64_t s = ((p[1] - '0') * 10 + (p[2] - '0')) * 3600 + ((p[4] - '0') * 10 + (p[5] - '0')) * 60 + (p[7] - '0') * 10 + (p[8] - '0');
  if (s > 86400) return false;
  *off = p[0] == '-' ? -s : s;
  return true;
}

std::string fixed_name(int64_t off) {
  if (off == 0 || off < -86400 || off > 86400) return "UTC";
  char b[40];
  int64_t a = off < 0 ? -off : off;
  snprintf(b, sizeof b, "Fixed/UTC%c%02d:%02d:%02d", off < 0 ? '-' : '+', static_cast<int>(a / 3600), static_cast<int>((a / 60) % 60), static_cast<int>(a % 60));
  return b;
}
std::string fixed_abbr(int64_t off) {
  if (off == 0 || off < -86400 || off > 86400) return "UTC";
  char b[40];
  int64_t a = off < 0 ? -off : off;
  int h = static_cast<int>(a / 3600), m = static_cast<int>((a / 60) % 60), s = static_cast<int>(a % 60);
  if (s) snprintf(b, sizeof b, "%c%02d%02d%02d", off < 0 ? '-' : '+', h, m, s);
  else if (m) snprintf(b, sizeof b, "%c%02d%02d", off < 0 ? '-' : '+', h, m);
  else snprintf(b, sizeof b, "%c%02d", off < 0 ? '-' : '+', h);
  return b;
}

}  // namespace sim
