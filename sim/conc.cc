#include "conc.h"

#include <algorithm>
#include <functional>
#include <set>

#include "cctz/time_zone.h"
#include "seams.h"

#if defined(SIM_TSAN)
extern "C" void __tsan_acquire(void* addr);
extern "C" void __tsan_release(void* addr);
#define SIM_TSAN_ACQUIRE(p) __tsan_acquire(p)
#define SIM_TSAN_RELEASE(p) __tsan_release(p)
#else
#define SIM_TSAN_ACQUIRE(p) (void)0
#define SIM_TSAN_RELEASE(p) (void)0
#endif

namespace sim {

static const char* kOpNames[O_NKINDS] = {"load", "utc", "fixed", "local", "default", "take", "eq", "query", "set_state", "bulk", "setenv"};

// ------------------------------------------------------------------ JSON
static J op_to_json(const Op& o) {
  J j = J::obj();
  j.set("op", kOpNames[o.k]);
  switch (o.k) {
    case O_LOAD: j.set("z", o.z); j.set("slot", o.slot); break;
    case O_UTC: case O_LOCAL: case O_DEFAULT: j.set("slot", o.slot); break;
    case O_FIXED: j.set("off", o.a); j.set("slot", o.slot); break;
    case O_TAKE: j.set("from_task", o.t2); j.set("from_slot", o.slot2); j.set("slot", o.slot); break;
    case O_EQ: j.set("slot", o.slot); j.set("slot2", o.slot2); break;
    case O_QUERY: { j.set("slot", o.slot); J q = query_to_json(o.q); for (auto& kv : q.o) j.set(kv.first, kv.second); break; }
    case O_SET_STATE: j.set("z", o.z); j.set("state", o.s); break;
    case O_BULK: j.set("count", o.a); j.set("repeat", o.slot2); j.set("state", o.s); break;
    case O_SETENV: j.set("state", o.s); break;
    default: break;
  }
  if (o.adv) j.set("adv", o.adv);
  if (o.skew) j.set("skew", o.skew);
  return j;
}
static Op op_from_json(const J& j) {
  Op o;
  std::string n = j.gets("op");
  for (int i = 0; i < O_NKINDS; ++i) if (n == kOpNames[i]) o.k = static_cast<OpKind>(i);
  o.z = static_cast<int>(j.geti("z", -1));
  o.slot = static_cast<int>(j.geti("slot"));
  o.slot2 = static_cast<int>(j.geti(o.k == O_TAKE ? "from_slot" : "slot2"));
  o.t2 = static_cast<int>(j.geti("from_task"));
  o.a = j.geti("off");
  o.s = j.gets("state");
  if (o.k == O_BULK) { o.a = j.geti("count"); o.slot2 = static_cast<int>(j.geti("repeat")); }
  if (o.k == O_QUERY) o.q = query_from_json(j);
  o.adv = j.geti("adv"); o.skew = j.geti("skew");
  return o;
}
static const char* chooser_name(ChooserKind c) {
  switch (c) { case CH_EXPLICIT: return "explicit"; case CH_UNIFORM: return "uniform"; case CH_STICKY: return "sticky";
    case CH_PCT: return "pct"; case CH_WINDOW: return "window"; default: return "sequential"; }
}
static ChooserKind chooser_from(const std::string& s) {
  for (int i = 0; i <= CH_SEQUENTIAL; ++i) if (s == chooser_name(static_cast<ChooserKind>(i))) return static_cast<ChooserKind>(i);
  return CH_EXPLICIT;
}

J conc_to_json(const ConcCase& c) {
  J j = J::obj();
  j.set("engine", "conc");
  j.set("property", c.property);
  j.set("mode", c.mode);
  J zs = J::arr();
  for (const ZoneSpec& z : c.zones) {
    J jz = J::obj();
    jz.set("key", z.key); jz.set("literal", z.literal); jz.set("base", z.base); jz.set("state", z.state);
    if (z.file_prefix) jz.set("file_prefix", true);
    if (z.null_times) jz.set("null_times", z.null_times);
    if (z.eio_times) jz.set("eio_times", z.eio_times);
    if (z.throw_times) jz.set("throw_times", z.throw_times);
    if (z.read_throw_times) jz.set("read_throw_times", z.read_throw_times);
    zs.push(jz);
  }
  j.set("zones", zs);
  j.set("tz_env_zone", c.tz_env_zone);
  j.set("tz_env_colon", c.tz_env_colon);
  if (c.tz_env_via_localtime) j.set("tz_env_via_localtime", true);
  J ts = J::arr();
  for (size_t t = 0; t < c.tasks.size(); ++t) {
    J jt = J::obj(); jt.set("id", static_cast<int>(t));
    J ops = J::arr();
    for (const Op& o : c.tasks[t]) ops.push(op_to_json(o));
    jt.set("ops", ops);
    ts.push(jt);
  }
  j.set("tasks", ts);
  J k = J::obj();
  k.set("chooser", chooser_name(c.sched.chooser));
  k.set("sched_seed", static_cast<int64_t>(c.sched.seed));
  k.set("sticky_permille", static_cast<int>(c.sched.sticky_p * 1000));
  k.set("pct_depth", c.sched.pct_depth);
  k.set("pct_len", c.sched.pct_len);
  k.set("disabled_kinds", static_cast<int64_t>(c.sched.disabled_kinds));
  k.set("factory_yields", c.factory_yields);
  k.set("factory_reenters", c.factory_reenters);
  k.set("nslots", c.nslots);
  k.set("step_cap", c.sched.step_cap);
  if (c.sched.exit_at_step >= 0) k.set("exit_at_step", c.sched.exit_at_step);
  if (c.sched.store_buffer) { k.set("store_buffer", true); k.set("sb_ttl_max", c.sched.sb_ttl_max); }
  j.set("knobs", k);
  J s = J::arr();
  for (int v : c.sched.schedule) s.push(v);
  j.set("schedule", s);
  j.set("schedule_semantics", "task id chosen at each scheduler step; an entry whose task cannot run at that point is skipped; after the list ends the current task keeps running");
  return j;
}

bool conc_from_json(const J& j, ConcCase* c) {
  c->property = j.gets("property");
  c->mode = j.gets("mode");
  c->zones.clear();
  for (const J& jz : j.at("zones").a) {
    ZoneSpec z;
    z.key = jz.gets("key"); z.literal = jz.getb("literal"); z.base = jz.gets("base"); z.state = jz.gets("state", "healthy");
    z.file_prefix = jz.getb("file_prefix");
    z.null_times = static_cast<int>(jz.geti("null_times")); z.eio_times = static_cast<int>(jz.geti("eio_times"));
    z.throw_times = static_cast<int>(jz.geti("throw_times")); z.read_throw_times = static_cast<int>(jz.geti("read_throw_times"));
    c->zones.push_back(z);
  }
  c->tz_env_zone = static_cast<int>(j.geti("tz_env_zone", -2));
  c->tz_env_colon = j.getb("tz_env_colon");
  c->tz_env_via_localtime = j.getb("tz_env_via_localtime");
  c->tasks.clear();
  for (const J& jt : j.at("tasks").a) {
    std::vector<Op> ops;
    for (const J& jo : jt.at("ops").a) ops.push_back(op_from_json(jo));
    c->tasks.push_back(ops);
  }
  const J& k = j.at("knobs");
  c->sched.chooser = chooser_from(k.gets("chooser", "explicit"));
  c->sched.seed = static_cast<uint64_t>(k.geti("sched_seed", 1));
  c->sched.sticky_p = k.geti("sticky_permille", 800) / 1000.0;
  c->sched.pct_depth = static_cast<int>(k.geti("pct_depth", 2));
  c->sched.pct_len = static_cast<int>(k.geti("pct_len", 200));
  c->sched.disabled_kinds = static_cast<uint32_t>(k.geti("disabled_kinds"));
  c->sched.step_cap = static_cast<int>(k.geti("step_cap", 200000));
  c->sched.exit_at_step = static_cast<int>(k.geti("exit_at_step", -1));
  c->sched.store_buffer = k.getb("store_buffer"); c->sched.sb_ttl_max = static_cast<int>(k.geti("sb_ttl_max", 32));
  c->factory_yields = static_cast<int>(k.geti("factory_yields", 1));
  c->factory_reenters = static_cast<int>(k.geti("factory_reenters", 0));
  c->nslots = static_cast<int>(k.geti("nslots", 4));
  c->sched.schedule.clear();
  for (const J& v : j.at("schedule").a) c->sched.schedule.push_back(static_cast<int>(v.i));
  return !c->tasks.empty();
}

// ------------------------------------------------------------------ generation
static const ZoneShape& shape_for_base(const std::string& base) {
  static std::map<std::string, ZoneShape> cache;
  auto it = cache.find(base);
  if (it != cache.end()) return it->second;
  return cache[base] = shape_of(base_bytes(base));
}

static const std::vector<std::string>& popular() {
  static const std::vector<std::string> p = {
      "America/New_York", "Europe/London", "Australia/Lord_Howe", "Asia/Kathmandu", "Africa/Cairo", "Pacific/Apia",
      "Etc/UTC", "America/Phoenix", "Europe/Lisbon", "Asia/Tokyo", "Africa/Monrovia", "Pacific/Chatham", "America/Sao_Paulo"};
  return p;
}

static ZoneSpec gen_zone(Rng* r, int idx, bool allow_bad, bool allow_literal) {
  ZoneSpec z;
  z.key = std::string(1, static_cast<char>('A' + idx % 26));
  if (idx >= 26) z.key += std::to_string(idx / 26);
  if (r->chance(0.3)) z.key += "/" + std::string(static_cast<size_t>(r->pick(std::vector<int>{1, 7, 15, 16, 31, 64})), static_cast<char>('a' + idx % 26));   // names of different lengths
  if (r->chance(0.01)) z.key += "/" + std::string(static_cast<size_t>(r->pick(std::vector<int>{255, 256, 300, 1024, 4080, 4097, 5000, 20000})), static_cast<char>('a' + idx % 26));   // ... up to far beyond PATH_MAX
  uint64_t p = r->below(100);
  if (p < 60 || (!allow_bad && !allow_literal)) {
    const auto& names = shipped_names();
    std::string rel = r->chance(0.6) ? r->pick(popular()) : r->pick(names);
    if (shipped_bytes(rel).empty()) rel = names[0];
    z.base = "shipped:" + rel;
  } else if (p < 66) {
    z.base = "synth:" + std::to_string(r->below(5000));
  } else if (p < 76 && allow_bad) {
    z.base = "shipped:" + r->pick(popular()); z.state = "absent";
  } else if (p < 84 && allow_bad) {
    z.base = "shipped:" + r->pick(popular()); z.state = r->pick(std::vector<std::string>{"badmagic", "trunc", "badfooter", "badfooter"});
  } else if (allow_literal) {
    z.literal = true; z.state = "absent";
    static const std::vector<std::string> lits = {"UTC", "UTC0", "Fixed/UTC+05:30:00", "Fixed/UTC-08:00:00", "Fixed/UTC+00:00:00",
                                                  "Fixed/UTC+24:00:00", "Fixed/UTC-00:00:37", "Fixed/UTC+25:00:00", "Fixed/UTC+24:00:01",
                                                  "fixed/utc+01:00:00", "Fixed/UTC+1:00:00", "UTC1", "utc"};
    z.key = r->pick(lits);
    if (r->chance(0.4)) {
      // Any spelling the built-in rule accepts or narrowly rejects: two digits per field, fields up to 99.
      char b[40];
      int hh = static_cast<int>(r->pick(std::vector<int>{0, 0, 1, 5, 12, 23, 23, 24, 24, 25, 99}));
      int mm = static_cast<int>(r->pick(std::vector<int>{0, 0, 30, 59, 60, 60, 61, 90, 99}));
      int ss = static_cast<int>(r->pick(std::vector<int>{0, 0, 1, 37, 59, 60, 60, 99}));
      snprintf(b, sizeof b, "Fixed/UTC%c%02d:%02d:%02d", r->chance(0.5) ? '+' : '-', hh, mm, ss);
      z.key = b;
      // ... or one character off: wrong sign, wrong separator, a non-digit in either position of a field
      if (r->chance(0.15)) z.key[static_cast<size_t>(r->range(9, 17))] = r->pick(std::vector<char>{'*', ' ', '-', '+', ':', 'x', '/', '0', '9', '.'});
    }
  } else {
    z.base = "shipped:" + r->pick(popular());
  }
  return z;
}


static void gen_sched_knobs(Rng* scp, ConcCase* cp);

ConcCase gen_conc(const std::string& property, const std::string& tier, uint64_t seed, int64_t run_index) {
  Rng root(mix64(mix64(seed, hash_str(property)), static_cast<uint64_t>(run_index)));
  Rng wl = root.split(1), fl = root.split(2), sc = root.split(3);
  if (tier.compare(0, 4, "tmpl") == 0) {
    // Seeded search over the enumerable template ("tmpl<k>[f]"): same yields as the enumeration.
    int k = tier.size() > 4 ? tier[4] - '0' : 3;
    bool fy = tier.size() > 5 && tier[5] == 'f';
    ConcCase c = template_conc(property, k, 1, fy);
    uint32_t dk = c.sched.disabled_kinds;
    gen_sched_knobs(&sc, &c);
    c.sched.disabled_kinds = dk;
    c.factory_yields = 0;
    return c;
  }
  if (tier == "cold" || tier == "exit") {
    // First-ever calls into the library, racing: every run of this part is the only execution of its
    // process, so function-local statics, lazily created singletons and the empty cache are all cold.
    ConcCase c;
    c.property = property;
    c.mode = "cold";
    ZoneSpec a; a.key = "A"; a.base = "shipped:" + wl.pick(popular()); a.state = wl.chance(0.5) ? "absent" : (wl.chance(0.5) ? "badmagic" : "healthy");
    ZoneSpec b; b.key = "B"; b.base = "shipped:Etc/UTC"; b.state = wl.chance(0.5) ? "healthy" : "absent";
    c.zones.push_back(a); c.zones.push_back(b);
    c.tz_env_zone = wl.chance(0.5) ? -2 : static_cast<int>(wl.below(2));
    int k = static_cast<int>(wl.range(2, 4));
    // Half of the runs have a focus: one kind of const operation that every task performs as its first query, so that
    // whatever that operation sets up lazily on first use in a process is set up by several threads at once.
    const bool focused = wl.chance(0.5);
    const QKind focus_kind = wl.pick(std::vector<QKind>{Q_PARSE, Q_PARSE, Q_FORMAT, Q_FORMAT, Q_LOOKUP_CS, Q_LOOKUP_TP, Q_NEXT, Q_PREV, Q_CONV_CS, Q_DESC, Q_VERSION});
    auto focus_query = [&]() {
      Query q;
      for (int tries = 0; tries < 400; ++tries) { q = gen_query(&wl, shape_for_base(a.base), true); if (q.k == focus_kind) break; }
      return q;
    };
    for (int t = 0; t < k; ++t) {
      std::vector<Op> ops;
      int n = static_cast<int>(wl.range(1, 4));
      for (int i = 0; i < n; ++i) {
        Op o;
        switch (wl.below(7)) {
          case 0: o.k = O_LOAD; o.z = 0; break;
          case 1: o.k = O_LOAD; o.z = 1; break;
          case 2: o.k = O_UTC; break;
          case 3: o.k = O_DEFAULT; break;
          case 4: o.k = O_FIXED; o.a = wl.pick(std::vector<int64_t>{0, 3600, -3600}); break;
          case 5: o.k = O_LOCAL; break;
          default: o.k = O_LOAD; o.z = static_cast<int>(wl.below(2)); break;
        }
        o.slot = i % c.nslots;
        ops.push_back(o);
        if (focused && i == 0) { Op q; q.k = O_QUERY; q.slot = o.slot; q.q = focus_query(); ops.push_back(q); }
        if (wl.chance(0.6)) {
          Op q; q.k = O_QUERY; q.slot = o.slot; q.q.k = wl.chance(0.5) ? Q_LOOKUP_TP : Q_NAME; q.q.a = 1700000000;
          // ... or any other const operation: whatever format, parse, the transition scans or description() set up
          // lazily on first use is then set up under contention too (the references are computed after the tasks).
          if (wl.chance(0.5)) q.q = gen_query(&wl, shape_for_base(a.base), true);
          ops.push_back(q);
        }
        if (i > 0 && wl.chance(0.5)) { Op e; e.k = O_EQ; e.slot = o.slot; e.slot2 = (i - 1) % c.nslots; ops.push_back(e); }
      }
      c.tasks.push_back(ops);
    }
    // Every task takes every other task's handles at the end and compares: identity across tasks.
    for (int t = 0; t < k; ++t) for (int u = 0; u < k; ++u) if (u != t) {
      Op tk; tk.k = O_TAKE; tk.t2 = u; tk.slot2 = 0; tk.slot = 3; c.tasks[static_cast<size_t>(t)].push_back(tk);
      Op e; e.k = O_EQ; e.slot = 3; e.slot2 = 0; c.tasks[static_cast<size_t>(t)].push_back(e);
    }
    gen_sched_knobs(&sc, &c);
    c.sched.disabled_kinds &= ~((1u << Y_ATOMIC_LD) | (1u << Y_ATOMIC_ST) | (1u << Y_ATOMIC_RMW));
    if (c.sched.chooser == CH_STICKY) c.sched.sticky_p = 0.5;
    if (tier == "exit") {
      // The process "exits" (its static destructors run) at some step while the threads carry on, as detached
      // threads do when main() returns.  More repeat loads and queries, so that something is still going on then.
      for (auto& ops : c.tasks) {
        size_t n0 = ops.size();
        for (size_t i = 0; i < n0 && i < 6; ++i) if (ops[i].k == O_LOAD || ops[i].k == O_QUERY || ops[i].k == O_FIXED || ops[i].k == O_LOCAL) ops.push_back(ops[i]);
      }
      c.sched.exit_at_step = static_cast<int>(sc.range(3, 150));
    }
    return c;
  }
  if (tier == "hints") {
    // C14 multi-task hint histories: tasks share one zone and keep overwriting each other's hints.
    ConcCase c;
    c.property = property;
    c.mode = "hints";
    ZoneSpec z; z.key = "A";
    static const std::vector<std::string> busy = {"America/New_York", "Europe/London", "Australia/Lord_Howe", "Africa/Casablanca", "Asia/Tehran", "America/Sao_Paulo", "Pacific/Apia"};
    z.base = "shipped:" + wl.pick(busy);
    c.zones.push_back(z);
    const ZoneShape& sh = shape_for_base(z.base);
    int k = static_cast<int>(wl.range(2, 4));
    std::vector<Query> pool;
    int npool = static_cast<int>(wl.range(3, 12));
    for (int i = 0; i < npool; ++i) pool.push_back(gen_query(&wl, sh, false));
    for (int t = 0; t < k; ++t) {
      std::vector<Op> ops;
      Op l; l.k = O_LOAD; l.z = 0; l.slot = 0; ops.push_back(l);
      int n = static_cast<int>(wl.range(8, 40));
      for (int i = 0; i < n; ++i) {
        Op o; o.k = O_QUERY; o.slot = 0;
        o.q = wl.chance(0.7) ? wl.pick(pool) : gen_query(&wl, sh, false);
        ops.push_back(o);
      }
      c.tasks.push_back(ops);
    }
    gen_sched_knobs(&sc, &c);
    c.sched.disabled_kinds &= ~((1u << Y_ATOMIC_LD) | (1u << Y_ATOMIC_ST));
    return c;
  }
  ConcCase c;
  c.property = property;
  const bool is_c20 = property == "C20", is_c14 = property == "C14";
  int k;
  if (is_c14) { c.mode = "cacheB"; k = wl.chance(0.6) ? 1 : static_cast<int>(wl.range(2, 4)); }
  else {
    static const std::vector<int> ks = {2, 2, 2, 3, 3, 4, 4, 8};
    k = wl.pick(ks);
#if defined(SIM_TSAN)
    if (wl.chance(0.04)) k = static_cast<int>(wl.range(9, 64));
    // A crowd: per-thread state kept in a fixed-size table (128, 256, 512 slots ...) only aliases beyond that many threads.
    if (wl.chance(0.003)) k = static_cast<int>(wl.pick(std::vector<int>{130, 257, 300, 513, 520}));
#else
    if (wl.chance(0.015)) k = static_cast<int>(wl.pick(std::vector<int>{9, 16, 17, 32, 33, 64}));   // thread counts around powers of two, also without TSan
#endif
    c.mode = (!is_c20 && wl.chance(0.25)) ? "faulted" : "free";
  }
  int nz = static_cast<int>(wl.range(1, is_c20 ? 4 : 5));
  if (wl.chance(0.3)) nz = 1;  // maximal contention
  else if (wl.chance(0.04)) nz = static_cast<int>(wl.range(12, 40));   // many names: cache growth and rehashing while others use it
  for (int i = 0; i < nz; ++i) {
    c.zones.push_back(gen_zone(&wl, i, true, i > 0 || wl.chance(0.2)));
    // Occasionally the next name is the previous one with a "file:" prefix: same data, but a different name
    // (its own cache entry, its own single factory call).
    if (i + 1 < nz && !c.zones.back().literal && wl.chance(0.12)) {
      ZoneSpec alias = c.zones.back();
      alias.file_prefix = true;
      c.zones.push_back(alias);
      ++i;
    }
  }
  if (c.mode == "faulted") {
    for (ZoneSpec& z : c.zones) if (!z.literal && z.state == "healthy" && fl.chance(0.7)) {
      if (fl.chance(0.5)) z.null_times = static_cast<int>(fl.range(1, 2)); else z.eio_times = static_cast<int>(fl.range(1, 2));
    }
  }
  // User code may fail by exception: the factory itself, or a Read of the source it returned.  Nothing is cached for a
  // load that ended that way (it neither succeeded nor failed), and everything after it must be as orderly as before.
  if (fl.chance(0.08)) {
    for (ZoneSpec& z : c.zones) if (!z.literal && fl.chance(0.5)) {
      if (fl.chance(0.6)) z.throw_times = static_cast<int>(fl.range(1, 2)); else z.read_throw_times = static_cast<int>(fl.range(1, 2));
    }
  }
  if (is_c14) {
    for (ZoneSpec& z : c.zones) if (!z.literal) {
      static const std::vector<std::string> st = {"healthy", "healthy", "absent", "badmagic", "trunc", "eio", "badfooter"};
      z.state = fl.pick(st);
    }
  }
  uint64_t e = wl.below(10);
  if (e < 2) c.tz_env_zone = -2; else if (e < 3) c.tz_env_zone = -1; else { c.tz_env_zone = static_cast<int>(wl.below(static_cast<uint64_t>(nz))); c.tz_env_colon = wl.chance(0.5); c.tz_env_via_localtime = wl.chance(0.2); }
  c.nslots = 4;
  int maxops = k > 8 ? 4 : (is_c14 ? 20 : 12);
  for (int t = 0; t < k; ++t) {
    std::vector<Op> ops;
    std::vector<int> slot_zone(static_cast<size_t>(c.nslots), -3);  // what the generator believes each slot holds (-3 unset, -1 builtin)
    int nops = static_cast<int>(wl.range(is_c14 ? 5 : 3, maxops));
    for (int i = 0; i < nops; ++i) {
      Op o;
      uint64_t p = wl.below(100);
      bool any_set = false;
      for (int v : slot_zone) if (v != -3) any_set = true;
      bool first_phase = is_c20 && i < 2;
      if (first_phase || p < (is_c20 ? 55u : 30u) || !any_set) {
        o.k = O_LOAD; o.z = wl.chance(0.5) ? 0 : static_cast<int>(wl.below(static_cast<uint64_t>(nz)));
        o.slot = static_cast<int>(wl.below(static_cast<uint64_t>(c.nslots)));
        slot_zone[static_cast<size_t>(o.slot)] = o.z;
      } else if (p < (is_c20 ? 65u : 72u)) {
        o.k = O_QUERY;
        std::vector<int> set;
        for (int s = 0; s < c.nslots; ++s) if (slot_zone[static_cast<size_t>(s)] != -3) set.push_back(s);
        o.slot = wl.pick(set);
        int z = slot_zone[static_cast<size_t>(o.slot)];
        static const ZoneShape empty_shape;
        const ZoneShape& sh = (z >= 0 && !c.zones[static_cast<size_t>(z)].base.empty()) ? shape_for_base(c.zones[static_cast<size_t>(z)].base) : empty_shape;
        o.q = gen_query(&wl, sh, true);
      } else if (p < 77) { o.k = O_UTC; o.slot = static_cast<int>(wl.below(static_cast<uint64_t>(c.nslots))); slot_zone[static_cast<size_t>(o.slot)] = -1; }
      else if (p < 83) {
        o.k = O_FIXED; o.slot = static_cast<int>(wl.below(static_cast<uint64_t>(c.nslots))); slot_zone[static_cast<size_t>(o.slot)] = -1;
        static const std::vector<int64_t> offs = {0, 3600, -3600, 19800, -28800, 86400, -86400, 86401, -86401, 37, -37, 5400, 45296, 1};
        o.a = wl.pick(offs);
      }
      else if (p < 87) { o.k = O_LOCAL; o.slot = static_cast<int>(wl.below(static_cast<uint64_t>(c.nslots))); slot_zone[static_cast<size_t>(o.slot)] = c.tz_env_zone >= 0 ? c.tz_env_zone : -1; }
      else if (p < 89) { o.k = O_DEFAULT; o.slot = static_cast<int>(wl.below(static_cast<uint64_t>(c.nslots))); slot_zone[static_cast<size_t>(o.slot)] = -1; }
      else if (p < 94 && k > 1) {
        o.k = O_TAKE; o.t2 = static_cast<int>(wl.below(static_cast<uint64_t>(k))); o.slot2 = static_cast<int>(wl.below(static_cast<uint64_t>(c.nslots)));
        o.slot = static_cast<int>(wl.below(static_cast<uint64_t>(c.nslots)));
        // Content unknown to the generator: queries on it use zone 0's shape.
        if (slot_zone[static_cast<size_t>(o.slot)] == -3) slot_zone[static_cast<size_t>(o.slot)] = 0;
      }
      else if (is_c14 && p < 99) {
        o.k = O_SET_STATE; o.z = static_cast<int>(wl.below(static_cast<uint64_t>(nz)));
        static const std::vector<std::string> st = {"healthy", "healthy", "absent", "badmagic", "trunc", "eio", "badfooter"};
        o.s = wl.pick(st);
        if (c.zones[static_cast<size_t>(o.z)].literal) { o.k = O_UTC; o.slot = 0; slot_zone[0] = -1; }
      }
      else { o.k = O_EQ; o.slot = static_cast<int>(wl.below(static_cast<uint64_t>(c.nslots))); o.slot2 = static_cast<int>(wl.below(static_cast<uint64_t>(c.nslots))); }
      ops.push_back(o);
    }
    c.tasks.push_back(ops);
  }
  // Simulated time: most calls follow each other at once, some after seconds or minutes, a few after hours or days;
  // now and then the wall clock is stepped (NTP correction, an operator setting the date).
  for (auto& ops : c.tasks) for (Op& o : ops) {
    uint64_t p = wl.below(1000);
    if (p < 80) o.adv = static_cast<int64_t>(wl.range(1, 120));
    else if (p < 110) o.adv = static_cast<int64_t>(wl.pick(std::vector<int64_t>{3600, 86400, 2 * 86400, 40 * 86400, 400 * 86400}));
    else if (p < 118) o.skew = wl.pick(std::vector<int64_t>{-400LL * 86400, -3600, -1, 1, 3650LL * 86400});
  }
  // ... and the environment changes under its feet: TZDIR (irrelevant with a user-supplied factory), LANG, HOME.
  if (wl.chance(0.08)) {
    for (auto& ops : c.tasks) if (!ops.empty() && wl.chance(0.5)) {
      Op o; o.k = O_SETENV;
      o.s = wl.pick(std::vector<std::string>{"TZDIR=/sim/elsewhere", "TZDIR=/usr/share/zoneinfo", "TZDIR=", "TZDIR", "LANG=tr_TR.ISO-8859-9", "HOME=/nonexistent", "TZDIR=/sim/zi"});
      ops.insert(ops.begin() + static_cast<long>(wl.below(ops.size() + 1)), o);
    }
  }
  // Re-entrant factories: the factory itself calls into cctz (formats a timestamp, asks for a fixed zone, loads another
  // name, asks for the local zone) - ordinary user code.  The contract must hold for the outer and the nested
  // invocations alike.  A tree whose load lock is not recursive deadlocks on the nested load; no listed property
  // forbids that design, so such a deadlock is counted (probe) and the run left unjudged, never reported.
  {
    bool pick = wl.chance(0.06);
    int mode = static_cast<int>(wl.range(1, 4));
    if (!is_c14 && pick) c.factory_reenters = mode;
  }
  if (c.factory_reenters == 3) { c.tz_env_zone = -2; }
  if (wl.chance(0.004)) {
    Op b; b.k = O_BULK;
    b.a = wl.pick(std::vector<int64_t>{70, 300, 1100, 2200, 4300});
    b.slot2 = static_cast<int>(wl.range(1, 4));
    b.s = wl.pick(std::vector<std::string>{"absent", "absent", "tiny", "bad"});
    c.tasks[wl.below(c.tasks.size())].push_back(b);
    c.sched.disabled_kinds |= (1u << Y_READ) | (1u << Y_SKIP) | (1u << Y_SRC_DTOR) | (1u << Y_FACTORY_MID);   // keep the run short
    c.factory_yields = 0;
  }
  gen_sched_knobs(&sc, &c);
  return c;
}

static void gen_sched_knobs(Rng* scp, ConcCase* cp) {
  Rng& sc = *scp;
  ConcCase& c = *cp;
  // Scheduler knobs (swarm).
  c.sched.seed = sc.next();
  uint64_t ch = sc.below(100);
  if (ch < 30) c.sched.chooser = CH_UNIFORM;
  else if (ch < 55) { c.sched.chooser = CH_STICKY; static const std::vector<double> ps = {0.5, 0.8, 0.95}; c.sched.sticky_p = sc.pick(ps); }
  else if (ch < 75) { c.sched.chooser = CH_PCT; c.sched.pct_depth = static_cast<int>(sc.pick(std::vector<int>{1, 2, 2, 3, 3, 4, 5})); c.sched.pct_len = static_cast<int>(sc.range(20, 400)); }
  else c.sched.chooser = CH_WINDOW;
  for (int kind : {Y_OP, Y_READ, Y_SKIP, Y_SRC_DTOR, Y_FACTORY_MID, Y_FACTORY_OUT, Y_ATOMIC_LD, Y_ATOMIC_ST, Y_UNLOCK})
    if (sc.chance(0.15)) c.sched.disabled_kinds |= (1u << kind);
  c.factory_yields = static_cast<int>(sc.below(4));
  // Half of the runs let stores weaker than seq_cst sit in a per-thread store buffer for a while (effective on the
  // TSan build, where atomics are intercepted).
  c.sched.store_buffer = sc.chance(0.5);
  c.sched.sb_ttl_max = sc.pick(std::vector<int>{2, 8, 32, 128, 512});
}

ConcCase template_conc(const std::string& property, int k, int nnames, bool factory_yields) {
  ConcCase c;
  c.property = property;
  c.mode = "template";
  for (int i = 0; i < nnames; ++i) {
    ZoneSpec z; z.key = std::string(1, static_cast<char>('A' + i)); z.base = "shipped:Etc/UTC";  // tiny: the template is about schedules
    c.zones.push_back(z);
  }
  for (int t = 0; t < k; ++t) {
    Op o; o.k = O_LOAD; o.z = t % nnames; o.slot = 0;
    c.tasks.push_back({o});
  }
  c.sched.chooser = CH_EXPLICIT;
  // Yields only at the loader's critical-section boundaries (and optionally inside the factory).
  c.sched.disabled_kinds = ~0u & ~((1u << Y_LOCK) | (1u << Y_FACTORY_IN) | (1u << Y_START) | (1u << Y_BLOCKED) | (1u << Y_END));
  if (factory_yields) c.sched.disabled_kinds &= ~(1u << Y_FACTORY_OUT);
  c.factory_yields = 0;
  return c;
}

// ------------------------------------------------------------------ execution
namespace {

uint64_t g_exec_counter = 0;

enum Origin : uint8_t { OR_ZONE, OR_UTC, OR_FIXED, OR_DEFAULT };

struct Slot {
  cctz::time_zone tz;
  bool set = false;
  Origin origin = OR_DEFAULT;
  int z = -1;
  bool ok = true;
  int64_t fixed_off = 0;
};

struct LoadRec {
  int task, opidx, z;     // z == -10: local_time_zone() with no catalogue zone
  uint64_t seq_inv, seq_ret;
  bool ok;
  cctz::time_zone tz;
  bool local;
  std::string requested;  // full name requested (for LOCAL: the name $TZ resolves to)
  bool threw = false;     // the call exited by an exception of the data source: neither a success nor a failure
};
struct QueryRec { int task, opidx; Slot slot; Query q; std::string got; };
struct EqRec { int task, opidx; Slot a, b; bool got; };

struct Exec {
  const ConcCase& c;
  std::string salt;
  std::map<std::string, CatEntry> cat;
  std::vector<std::vector<Slot>> slots;
  std::vector<LoadRec> loads;
  std::vector<QueryRec> queries;
  std::vector<EqRec> eqs;
  std::vector<std::string> log;
  uint64_t log_hash = 0x9e3779b9;
  bool keep_log;
  int toggles = 0;
  std::vector<std::pair<uint64_t, int>> toggle_seq;  // (seq, z)

  Exec(const ConcCase& cc, bool kl) : c(cc), keep_log(kl) {}

  std::string fullname(int z) const {
    const ZoneSpec& zs = c.zones[static_cast<size_t>(z)];
    return zs.literal ? zs.key : std::string(zs.file_prefix ? "file:" : "") + "sim/" + salt + "/" + zs.key;
  }
  std::string twinname(int z) const { return "twin/" + salt + "/" + c.zones[static_cast<size_t>(z)].key; }

  void ev(const std::string& text) {
    char b[48];
    snprintf(b, sizeof b, "#%llu t%d ", static_cast<unsigned long long>(next_seq()), cur_task());
    std::string line = std::string(b) + strip_salt(text, salt);
    log_hash = hash_str(line, log_hash);
    if (keep_log) log.push_back(line);
  }

  void apply_state(int z, const std::string& state) {
    const ZoneSpec& zs = c.zones[static_cast<size_t>(z)];
    CatEntry& e = cat[fullname(z)];
    std::string healthy = base_bytes(zs.base);
    e.bytes = healthy;
    e.eio_at = -1; e.eio_times = -1;
    e.kind = CatEntry::BYTES;
    if (state == "absent" || healthy.empty()) e.kind = CatEntry::ABSENT;
    else if (state == "badmagic") e.bytes[0] = 'X';
    else if (state == "trunc") e.bytes.resize(healthy.size() * 6 / 10);
    else if (state == "badfooter") {   // everything is fine until the very end of the POSIX rule string
      TzLayout L = layout_of(healthy);
      if (L.ok && L.footer_len > 2) { e.bytes = healthy.substr(0, L.footer + L.footer_len - 1) + ",\n"; }
      else e.bytes[0] = 'X';
    }
    else if (state == "eio") e.eio_at = static_cast<int64_t>(healthy.size() / 2);
  }

  void setup() {
    char sb[32];
    snprintf(sb, sizeof sb, "@%llu@", static_cast<unsigned long long>(++g_exec_counter));
    salt = sb;
    for (size_t z = 0; z < c.zones.size(); ++z) {
      const ZoneSpec& zs = c.zones[z];
      if (zs.literal) continue;
      apply_state(static_cast<int>(z), zs.state);
      CatEntry& e = cat[fullname(static_cast<int>(z))];
      e.null_times = zs.null_times;
      if (zs.eio_times > 0 && e.kind == CatEntry::BYTES) { e.eio_at = static_cast<int64_t>(e.bytes.size() / 2); e.eio_times = zs.eio_times; }
      e.throw_times = zs.throw_times; e.read_throw_times = zs.read_throw_times;
      CatEntry& tw = cat[twinname(static_cast<int>(z))];
      tw.kind = CatEntry::BYTES;
      tw.bytes = base_bytes(zs.base);
      if (tw.bytes.empty()) tw.kind = CatEntry::ABSENT;
    }
    CatEntry& u = cat["twin/" + salt + "/@utc"];
    u.kind = CatEntry::BYTES;
    u.bytes = shipped_bytes("Etc/UTC");
    slots.assign(c.tasks.size(), std::vector<Slot>(static_cast<size_t>(c.nslots)));
    env_reset(); fs_reset();
    clk.active = true;   // a fixed simulated date for the whole run (references included): replay does not depend on the day it is run
    env.active = true; fs.active = true;  // every fopen is ENOENT, every variable is ours
    if (c.tz_env_zone == -1) env.vars["TZ"] = "";
    else if (c.tz_env_zone >= 0 && c.tz_env_via_localtime) { env.vars["TZ"] = std::string(c.tz_env_colon ? ":" : "") + "localtime"; env.vars["LOCALTIME"] = fullname(c.tz_env_zone); }
    else if (c.tz_env_zone >= 0) env.vars["TZ"] = std::string(c.tz_env_colon ? ":" : "") + fullname(c.tz_env_zone);
    factory_reset(&cat, static_cast<int>(c.tasks.size()));
    fac.factory_yields = c.factory_yields;
    fac.reenter = c.factory_reenters;
    if (c.factory_reenters == 2) {
      fac.reenter_name = "sim/" + salt + "/@nested";
      CatEntry& ne = cat[fac.reenter_name];
      ne.kind = CatEntry::BYTES; ne.bytes = shipped_bytes("Etc/UTC");
    }
    // with TZ unset, local_time_zone() inside the factory resolves to /etc/localtime, which the catalogue does not have
    fac.read_call_cap = 0;
  }

  std::string local_target() const {
    if (c.tz_env_zone == -2) return "/etc/localtime";
    if (c.tz_env_zone == -1) return "";
    return fullname(c.tz_env_zone);
  }

  void store(int t, int s, const Slot& v) {
    Slot& dst = slots[static_cast<size_t>(t)][static_cast<size_t>(s)];
    dst = v;
    SIM_TSAN_RELEASE(&dst);
  }

  void run_op(int t, int opidx, const Op& o) {
    char b[160];
    // Time passes between calls - seconds, sometimes hours or days - and the wall clock may be stepped.
    if (o.adv > 0) { clk.now += o.adv; ev("clock +" + std::to_string(o.adv) + "s"); }
    if (o.skew != 0) { clk.skew = o.skew; ev("wall clock stepped to " + std::to_string(o.skew) + "s from monotonic"); }
    switch (o.k) {
      case O_LOAD: {
        if (o.z < 0 || static_cast<size_t>(o.z) >= c.zones.size()) break;
        std::string name = fullname(o.z);
        LoadRec lr; lr.task = t; lr.opidx = opidx; lr.z = o.z; lr.local = false; lr.requested = name;
        ev("invoke load(" + name + ")");
        lr.seq_inv = global_seq();
        fac.task_op[static_cast<size_t>(t)] = name;
        cctz::time_zone tz;
        bool ok = false;
        try { LibraryScope ls; ok = cctz::load_time_zone(name, &tz); }
        catch (const std::runtime_error&) { lr.threw = true; tz = cctz::time_zone(); }
        fac.task_op[static_cast<size_t>(t)] = "";
        lr.ok = ok; lr.tz = tz;
        ev(std::string("return load(") + name + ") = " + (lr.threw ? "(exception) " : (ok ? "true " : "false ")) + tz.name());
        lr.seq_ret = global_seq();
        loads.push_back(lr);
        Slot s; s.tz = tz; s.set = true; s.origin = OR_ZONE; s.z = o.z; s.ok = ok;
        store(t, o.slot, s);
        break;
      }
      case O_UTC: {
        Slot s; s.set = true; s.origin = OR_UTC;
        { LibraryScope ls; s.tz = cctz::utc_time_zone(); }
        store(t, o.slot, s); ev("utc_time_zone()");
        break;
      }
      case O_FIXED: {
        Slot s; s.set = true; s.origin = OR_FIXED; s.fixed_off = o.a;
        fac.task_op[static_cast<size_t>(t)] = fixed_name(o.a);
        { LibraryScope ls; s.tz = cctz::fixed_time_zone(cctz::seconds(o.a)); }
        fac.task_op[static_cast<size_t>(t)] = "";
        store(t, o.slot, s);
        snprintf(b, sizeof b, "fixed_time_zone(%lld) -> %s", static_cast<long long>(o.a), s.tz.name().c_str()); ev(b);
        break;
      }
      case O_DEFAULT: {
        Slot s; s.set = true; s.origin = OR_DEFAULT;
        store(t, o.slot, s); ev("time_zone()");
        break;
      }
      case O_LOCAL: {
        LoadRec lr; lr.task = t; lr.opidx = opidx; lr.z = c.tz_env_zone >= 0 ? c.tz_env_zone : -10; lr.local = true;
        lr.requested = local_target();
        ev("invoke local_time_zone()");
        lr.seq_inv = global_seq();
        fac.task_op[static_cast<size_t>(t)] = lr.requested;
        cctz::time_zone tz;
        try { LibraryScope ls; tz = cctz::local_time_zone(); }
        catch (const std::runtime_error&) { lr.threw = true; tz = cctz::time_zone(); }
        fac.task_op[static_cast<size_t>(t)] = "";
        { LibraryScope ls; lr.tz = tz; lr.ok = !(tz == cctz::utc_time_zone()); }
        ev("return local_time_zone() = " + (lr.threw ? std::string("(exception)") : tz.name()));
        lr.seq_ret = global_seq();
        loads.push_back(lr);
        Slot s; s.tz = tz; s.set = true; s.origin = OR_ZONE; s.z = lr.z; s.ok = lr.ok;
        if (lr.z < 0) { s.origin = OR_UTC; }
        store(t, o.slot, s);
        break;
      }
      case O_TAKE: {
        if (o.t2 < 0 || static_cast<size_t>(o.t2) >= slots.size() || o.slot2 < 0 || o.slot2 >= c.nslots) break;
        Slot& src = slots[static_cast<size_t>(o.t2)][static_cast<size_t>(o.slot2)];
        SIM_TSAN_ACQUIRE(&src);
        if (!src.set) { ev("take: empty"); break; }
        Slot s = src;
        store(t, o.slot, s);
        snprintf(b, sizeof b, "take t%d.s%d -> s%d (%s)", o.t2, o.slot2, o.slot, s.tz.name().c_str()); ev(b);
        break;
      }
      case O_EQ: {
        if (o.slot < 0 || o.slot >= c.nslots || o.slot2 < 0 || o.slot2 >= c.nslots) break;
        const Slot& a = slots[static_cast<size_t>(t)][static_cast<size_t>(o.slot)];
        const Slot& bb = slots[static_cast<size_t>(t)][static_cast<size_t>(o.slot2)];
        if (!a.set || !bb.set) { ev("eq: unset"); break; }
        EqRec er; er.task = t; er.opidx = opidx; er.a = a; er.b = bb;
        { LibraryScope ls; er.got = (a.tz == bb.tz); }
        eqs.push_back(er);
        snprintf(b, sizeof b, "eq s%d s%d = %d", o.slot, o.slot2, er.got ? 1 : 0); ev(b);
        break;
      }
      case O_QUERY: {
        if (o.slot < 0 || o.slot >= c.nslots) break;
        const Slot& s = slots[static_cast<size_t>(t)][static_cast<size_t>(o.slot)];
        if (!s.set) { ev("query: unset"); break; }
        QueryRec qr; qr.task = t; qr.opidx = opidx; qr.slot = s; qr.q = o.q;
        { LibraryScope ls; qr.got = run_query(s.tz, o.q); }
        queries.push_back(qr);
        ev(query_text(o.q) + " on " + s.tz.name() + " = " + qr.got);
        break;
      }
      case O_BULK: {
        // Many distinct fresh names (all failing, all tiny-but-healthy, or all rejected), then the first few again:
        // the cache's behaviour as it grows, rehashes, or - in a changed library - starts to forget.
        const std::string prefix = "sim/" + salt + "/bulk" + std::to_string(t) + "_";
        if (o.s == "tiny" || o.s == "bad") {
          fac.wildcard_prefix = "sim/" + salt + "/bulk";
          fac.wildcard_entry.kind = CatEntry::BYTES;
          fac.wildcard_entry.bytes = shipped_bytes("Etc/UTC");
          if (o.s == "bad") fac.wildcard_entry.bytes[0] = 'X';
        }
        const int64_t n = std::min<int64_t>(o.a, 20000), rep = std::min<int64_t>(o.slot2, n);
        for (int64_t pass = 0; pass < 2; ++pass) {
          for (int64_t i = 0; i < (pass == 0 ? n : rep); ++i) {
            std::string name = prefix + std::to_string(i);
            const bool rec = i < rep;
            LoadRec lr; lr.task = t; lr.opidx = opidx; lr.z = -20 - static_cast<int>(i); lr.local = false; lr.requested = name;
            if (rec) { ev("invoke load(" + name + ")"); lr.seq_inv = global_seq(); }
            fac.task_op[static_cast<size_t>(t)] = name;
            cctz::time_zone tz;
            bool ok;
            { LibraryScope ls; ok = cctz::load_time_zone(name, &tz); }
            fac.task_op[static_cast<size_t>(t)] = "";
            if (rec) {
              lr.ok = ok; lr.tz = tz;
              ev(std::string("return load(") + name + ") = " + (ok ? "true" : "false"));
              lr.seq_ret = global_seq();
              loads.push_back(lr);
            }
          }
        }
        break;
      }
      case O_SETENV: {
        // The process changes a part of its environment that has no bearing on a program with its own data source.
        HarnessScope hs;
        size_t eq = o.s.find('=');
        if (eq == std::string::npos) env.vars.erase(o.s); else env.vars[o.s.substr(0, eq)] = o.s.substr(eq + 1);
        ev("setenv " + o.s);
        break;
      }
      case O_SET_STATE: {
        if (o.z < 0 || static_cast<size_t>(o.z) >= c.zones.size() || c.zones[static_cast<size_t>(o.z)].literal) break;
        apply_state(o.z, o.s);
        toggles++;
        ev("set_state " + fullname(o.z) + " " + o.s);
        toggle_seq.emplace_back(global_seq(), o.z);
        break;
      }
      default: break;
    }
  }
};

std::string ident_of(const Exec& x, const Slot& s) {
  switch (s.origin) {
    case OR_UTC: case OR_DEFAULT: return "utc";
    case OR_FIXED: return fixed_name(s.fixed_off) == "UTC" ? "utc" : "fixed:" + std::to_string(s.fixed_off);
    case OR_ZONE: {
      if (!s.ok || s.z < 0) return "utc";
      const ZoneSpec& zs = x.c.zones[static_cast<size_t>(s.z)];
      int64_t off = 0;
      // One cached object per name: a spelling such as +00:60:00 is a zone of its own, distinct from +01:00:00.
      if (zs.literal && builtin_name(zs.key, &off)) return off == 0 ? "utc" : "fixed:" + std::to_string(off) + (zs.key == fixed_name(off) ? "" : ":" + zs.key);
      return "z" + std::to_string(s.z);
    }
  }
  return "?";
}

}  // namespace

Outcome exec_conc(const ConcCase& c, bool keep_log, Stats* stats) {
  Outcome out;
  Exec x(c, keep_log);
  clear_zone_cache();
  x.setup();
  reset_wrong_thread_calls();

  std::vector<std::function<void()>> bodies;
  for (size_t t = 0; t < c.tasks.size(); ++t) {
    bodies.push_back([&x, &c, t] {
      const std::vector<Op>& ops = c.tasks[t];
      for (size_t i = 0; i < ops.size(); ++i) {
        x.run_op(static_cast<int>(t), static_cast<int>(i), ops[i]);
        sim::yield(Y_OP);
      }
    });
  }
  set_phase("tasks");
  // The step cap is a livelock detector, not a budget a differently built (correct) library might exhaust: it grows with
  // the script (a crowd of 520 tasks with 1 800 ops needs ~10^5 steps on this tree, more with one more atomic per call).
  SchedConfig sched = c.sched;
  {
    int64_t nops = 0;
    for (const auto& ops : c.tasks) for (const Op& o : ops) nops += (o.k == O_BULK ? 2 * (o.a + 50) : 1);
    int64_t cap = std::max<int64_t>(sched.step_cap, 200000 + 3000 * nops);
    sched.step_cap = static_cast<int>(std::min<int64_t>(cap, 60000000));
  }
  SchedResult sr = run_tasks(bodies, sched);
  set_phase("oracle");
  out.trace_hash = sr.trace_hash;
  out.sig_hash = sr.sig_hash;
  out.schedule = sr.schedule;
  out.runnable_mask = sr.runnable_mask;
  out.steps = sr.steps;
  const size_t ncalls = fac.calls.size();
  auto viol = [&](const std::string& cls, const std::string& site, const std::string& detail) {
    Violation v; v.cls = cls; v.site = strip_salt(site, x.salt); v.detail = strip_salt(detail, x.salt);
    out.violations.push_back(v);
  };
  bool unjudged_deadlock = false;
  if (sr.deadlock && c.factory_reenters >= 1) { unjudged_deadlock = true; out.poisoned = true; }   // nested load under a non-recursive load lock (see gen_conc)
  else if (sr.deadlock) { viol("deadlock", "all unfinished tasks blocked", sr.deadlock_info); out.poisoned = true; }
  if (sr.steps_exceeded) { viol("steps-exceeded", "step cap reached", ""); out.poisoned = true; }

  const bool c13 = c.property == "C13", c14 = c.property == "C14", c20 = c.property == "C20";
  const bool faulted = c.mode == "faulted";
  const cctz::time_zone utc = cctz::utc_time_zone();

  if (!out.poisoned) {
    // ---- twins (sequential reference) -------------------------------------------------
    std::map<int, std::pair<bool, cctz::time_zone>> twin;  // per zone: (ok, handle)
    auto twin_of_zone = [&](int z) -> std::pair<bool, cctz::time_zone>& {
      auto it = twin.find(z);
      if (it != twin.end()) return it->second;
      cctz::time_zone tz;
      bool ok = cctz::load_time_zone(x.twinname(z), &tz);
      return twin[z] = std::make_pair(ok, tz);
    };
    cctz::time_zone utc_twin;
    bool utc_twin_loaded = false;
    auto get_utc_twin = [&]() -> const cctz::time_zone& {
      if (!utc_twin_loaded) { cctz::load_time_zone("twin/" + x.salt + "/@utc", &utc_twin); utc_twin_loaded = true; }
      return utc_twin;
    };
    std::map<int64_t, std::pair<bool, cctz::time_zone>> fixed_twin;
    auto get_fixed_twin = [&](int64_t off) -> const std::pair<bool, cctz::time_zone>& {
      auto it = fixed_twin.find(off);
      if (it != fixed_twin.end()) return it->second;
      std::string nm = "twin/" + x.salt + "/@fixed" + std::to_string(off);
      CatEntry& e = x.cat[nm];
      e.kind = CatEntry::BYTES;
      e.bytes = write_tzif(marker_zone(fixed_abbr(off), static_cast<int32_t>(off), '2'));
      cctz::time_zone tz;
      bool ok = cctz::load_time_zone(nm, &tz);  // false for +-24:00:00, which no file can express
      return fixed_twin[off] = std::make_pair(ok, tz);
    };

    // ---- identity / agreement over loads (C13) ------------------------------------------
    std::map<int, std::vector<const LoadRec*>> by_zone;
    for (const LoadRec& lr : x.loads) if (!lr.threw) by_zone[lr.z].push_back(&lr);
    for (auto& kv : by_zone) {
      int z = kv.first;
      const std::vector<const LoadRec*>& v = kv.second;
      std::string zname = z >= 0 ? x.fullname(z) : (z <= -20 ? v[0]->requested : x.local_target());
      int64_t boff = 0;
      bool builtin = builtin_name(zname, &boff);
      const LoadRec* first_ok = nullptr;
      for (const LoadRec* lr : v) {
        // Per-load sanity, common to all three properties' runs but reported under C13 only.
        if (c13) {
          if (lr->ok) {
            bool is_utc_name = builtin && boff == 0;
            if (!lr->local && !is_utc_name && lr->tz.name() != zname) viol("c13:identity", "load(" + zname + ") succeeded but name() differs", "name()=" + lr->tz.name());
            if (!is_utc_name && lr->tz == utc) viol("c13:identity", "load(" + zname + ") returned true with the UTC handle", "");
            if (first_ok && !(first_ok->tz == lr->tz)) viol("c13:identity", "two successful loads of " + zname + " returned unequal handles", "tasks " + std::to_string(first_ok->task) + " and " + std::to_string(lr->task));
            if (!first_ok) first_ok = lr;
          } else if (!(lr->tz == utc)) {
            viol("c13:identity", "failed load of " + zname + " did not leave UTC", "name()=" + lr->tz.name());
          }
        }
      }
      if (c13 && !faulted && z >= 0) {
        const ZoneSpec& zs = c.zones[static_cast<size_t>(z)];
        bool expect = builtin ? true : (zs.literal ? false : (zs.state == "healthy" ? twin_of_zone(z).first : false));
        for (const LoadRec* lr : v) if (!lr->local && lr->ok != expect)
          viol("c13:identity", std::string("load(") + zname + ") returned " + (lr->ok ? "true" : "false") + " but a sequential load returns " + (expect ? "true" : "false"), "task " + std::to_string(lr->task));
      }
      if (c13 && faulted && z >= 0 && !builtin) {
        bool any_true = false, any_false = false;
        for (const LoadRec* lr : v) { if (lr->local) continue; (lr->ok ? any_true : any_false) = true; }
        if (any_true && any_false) viol("c13:agreement", "loaders of " + zname + " disagree on success", "");
        const ZoneSpec& zs = c.zones[static_cast<size_t>(z)];
        if (any_false && !any_true && !zs.literal && zs.state == "healthy" && zs.null_times == 0 && zs.eio_times == 0 && twin_of_zone(z).first)
          viol("c13:agreement", "all loaders of healthy " + zname + " failed although no fault was injected", "");
      }
    }

    // ---- value oracle ---------------------------------------------------------------------
    if (c13 || c14) {
      for (const QueryRec& qr : x.queries) {
        const Slot& s = qr.slot;
        std::string id = ident_of(x, s);
        std::string want;
        bool skip = false;
        if (id == "utc") {
          if (qr.q.k == Q_NAME) want = "UTC";
          else if (qr.q.k == Q_DESC || qr.q.k == Q_VERSION) skip = true;
          else want = run_query(get_utc_twin(), qr.q);
        } else if (id.compare(0, 6, "fixed:") == 0) {
          int64_t off = strtoll(id.c_str() + 6, nullptr, 10);
          // a zone loaded by name reports the name it was asked for (also a spelling such as +00:60:00); fixed_time_zone() the canonical one
          if (qr.q.k == Q_NAME) want = (s.origin == OR_ZONE && s.z >= 0) ? x.c.zones[static_cast<size_t>(s.z)].key : fixed_name(off);
          else if (qr.q.k == Q_DESC || qr.q.k == Q_VERSION) skip = true;
          else if (!get_fixed_twin(off).first) skip = true;
          else want = run_query(get_fixed_twin(off).second, qr.q);
        } else {
          std::pair<bool, cctz::time_zone>& tw = twin_of_zone(s.z);
          if (!tw.first) skip = true;  // healthy bytes rejected sequentially: the load oracle speaks, not this one
          else if (qr.q.k == Q_NAME) want = x.fullname(s.z);
          else want = run_query(tw.second, qr.q);
        }
        if (skip) continue;
        if (want != qr.got) {
          viol(c14 ? "c14:history-dependence" : "c13:value", query_text(qr.q) + " on " + (s.z >= 0 ? x.fullname(s.z) : id),
               "got '" + qr.got + "' want '" + want + "' (task " + std::to_string(qr.task) + " op " + std::to_string(qr.opidx) + ")");
        }
      }
      for (const EqRec& er : x.eqs) {
        bool want = ident_of(x, er.a) == ident_of(x, er.b);
        if (want != er.got) viol(c14 ? "c14:history-dependence" : "c13:identity", "operator== between " + ident_of(x, er.a) + " and " + ident_of(x, er.b), std::string("got ") + (er.got ? "true" : "false"));
      }
    }

    // ---- C14-B: first completed outcome sticks, and no reload -------------------------------
    if (c14) {
      for (auto& kv : by_zone) {
        std::vector<const LoadRec*> v = kv.second;
        std::sort(v.begin(), v.end(), [](const LoadRec* a, const LoadRec* b) { return a->seq_ret < b->seq_ret; });
        const LoadRec* first = v[0];
        std::string zname = first->requested;
        // The very first outcome of a name must itself be what a fresh process gets - whatever other names were
        // loaded (or failed) before it.  Judged when nothing about this name changed during the run.
        if (kv.first >= 0 && !first->local) {
          const ZoneSpec& zs = c.zones[static_cast<size_t>(kv.first)];
          bool toggled = false;
          for (auto& ts : x.toggle_seq) if (ts.second == kv.first) toggled = true;
          int64_t boff = 0;
          if (!zs.literal && !toggled && zs.null_times == 0 && zs.eio_times == 0 && zs.throw_times == 0 && zs.read_throw_times == 0 && !builtin_name(zname, &boff)) {
            bool expect = zs.state == "healthy" ? twin_of_zone(kv.first).first : false;
            if (first->ok != expect)
              viol("c14:history-dependence", "first load(" + zname + ") returned " + (first->ok ? "true" : "false"), std::string("a process that loads only this name gets ") + (expect ? "true" : "false"));
          }
        }
        for (const LoadRec* lr : v) {
          if (lr == first || lr->seq_inv < first->seq_ret) continue;
          // local_time_zone() has no success flag (UTC can be either outcome): compare handles only.
          if (!lr->local && !first->local && lr->ok != first->ok) viol(first->ok ? "c14:cache-reload" : "c14:negative-cache", "load(" + zname + ") changed its answer", std::string("first ") + (first->ok ? "true" : "false") + ", later " + (lr->ok ? "true" : "false"));
          else if (!(lr->tz == first->tz)) viol("c14:cache-reload", "load(" + zname + ") returned a different handle the second time", "");
        }
      }
      for (size_t i = 0; i < ncalls; ++i) {
        const FactoryCall& fcall = fac.calls[i];
        // The load this call belongs to.
        const LoadRec* owner = nullptr;
        for (const LoadRec& lr : x.loads) if (lr.task == fcall.task && lr.seq_inv <= fcall.seq_in && fcall.seq_in <= lr.seq_ret) owner = &lr;
        if (!owner) continue;
        for (const LoadRec& lr : x.loads)
          if (lr.requested == fcall.name && !lr.threw && lr.seq_ret < owner->seq_inv) {
            viol("c14:cache-reload", "data source consulted again for " + fcall.name, "a load of it had already returned");
            break;
          }
      }
    }

    // ---- C20: factory discipline (recorded online, judged here) -----------------------------
    if (c20) {
      if (wrong_thread_calls() > 0) viol("c20:wrong-thread", "factory invoked on a thread that is not the caller's", std::to_string(wrong_thread_calls()) + " call(s)");
      std::map<std::string, int> per_name;
      for (size_t i = 0; i < ncalls; ++i) {
        const FactoryCall& fcall = fac.calls[i];
        int64_t off;
        if (!fcall.in_task) viol("c20:wrong-thread", "factory invoked outside any caller task for " + fcall.name, "");
        else if (fcall.task_op != fcall.name) viol("c20:wrong-thread", "factory invoked for " + fcall.name + " by a task that is not loading it", "task is loading '" + fcall.task_op + "'");
        if (builtin_name(fcall.name, &off)) viol("c20:builtin-name", "factory invoked for built-in name " + fcall.name, "");
        int other_idx = -1;
        for (int fi : fcall.in_flight_at_entry) if (fac.calls[static_cast<size_t>(fi)].task != fcall.task) { other_idx = fi; break; }   // an invocation nested inside the task's own is not concurrent
        if (other_idx >= 0) {
          const FactoryCall& other = fac.calls[static_cast<size_t>(other_idx)];
          viol("c20:factory-overlap", "factory entered for " + fcall.name + " while an invocation for " + other.name + " was in flight",
               "tasks " + std::to_string(other.task) + " and " + std::to_string(fcall.task) + (other.name == fcall.name ? " (same name)" : " (different names)"));
        }
        // (an invocation that exited by exception - or whose source threw - completed no load, so asking again is not "twice")
        if (!fcall.threw && ++per_name[fcall.name] == 2) viol("c20:twice", "factory invoked twice for " + fcall.name, "");
      }
    }
  }

  // ---- sanitizer findings during this run -------------------------------------------------
  // Undefined behaviour inside the pure conversion code is C12's business (its panel asks the same
  // questions of every zone it loads); here it is only counted, so that C13/C14/C20 never raise an
  // alarm for something that is not theirs.  Memory errors (ASan) still kill the worker and are reported.
  if (stats && !rt.ub.empty()) stats->add("ubsan_reports_counted_not_judged", static_cast<int64_t>(rt.ub.size()));
  finalize_races();
  for (const RaceReport& r : rt.races) {
    if (r.cctz_frame) viol("race@" + (r.fn0.empty() ? r.fn1 : r.fn0), r.desc, r.stack0 + " || " + r.stack1);
    else viol("machinery:tsan-report-without-cctz-frame", r.desc, r.stack0 + " || " + r.stack1);
  }

  // ---- coverage accounting ---------------------------------------------------------------------
  bool overlap = false, both_missed = false;
  for (size_t i = 0; i < x.loads.size() && !overlap; ++i)
    for (size_t j = i + 1; j < x.loads.size(); ++j)
      if (x.loads[i].requested == x.loads[j].requested && x.loads[i].task != x.loads[j].task &&
          x.loads[i].seq_inv < x.loads[j].seq_ret && x.loads[j].seq_inv < x.loads[i].seq_ret) { overlap = true; break; }
  {
    std::map<std::string, int> n;
    for (size_t i = 0; i < ncalls; ++i) if (++n[fac.calls[i].name] >= 2) both_missed = true;
  }
  bool after_toggle = false;
  for (auto& ts : x.toggle_seq) for (const LoadRec& lr : x.loads) if (lr.z == ts.second && lr.seq_inv > ts.first) after_toggle = true;
  out.nontrivial = c.mode == "cold" || overlap || sr.contended_locks > 0 || (c14 && after_toggle) || (c.mode == "hints" && sr.switches > static_cast<int>(c.tasks.size()) * 2);
  uint64_t opsh = 0;
  { std::string s = conc_to_json(c).at("tasks").dump() + conc_to_json(c).at("zones").dump(); opsh = hash_str(s); }
  out.distinct_key = c.mode == "template" ? sr.sig_hash : mix64(sr.trace_hash, opsh);
  if (c.mode == "template") out.nontrivial = true;
  out.log_hash = mix64(x.log_hash, sr.trace_hash);
  if (keep_log) {
    out.log = x.log;
    for (size_t i = 0; i < ncalls; ++i) {
      const FactoryCall& f = fac.calls[i];
      out.log.push_back("factory[" + std::to_string(i) + "] " + strip_salt(f.name, x.salt) + " task=" + std::to_string(f.task) + " seq=" + std::to_string(f.seq_in) + ".." + std::to_string(f.seq_out) +
                        " in_flight_at_entry=" + std::to_string(f.in_flight_at_entry.size()) + " reads=" + std::to_string(f.reads) + " gave_source=" + (f.gave_source ? "1" : "0"));
    }
    std::string s = "schedule:";
    for (size_t i = 0; i < sr.schedule.size(); ++i) s += " " + std::to_string(sr.schedule[i]) + ":" + yield_name(sr.kinds[i]);
    out.log.push_back(s);
  }
  if (stats) {
    stats->add("steps", sr.steps);
    stats->add("switches", sr.switches);
    stats->add("contended_lock_waits", sr.contended_locks);
    if (sr.cond_waits) stats->add("cond_waits", sr.cond_waits);
    { int64_t secs = 0; for (const auto& ops : c.tasks) for (const Op& o : ops) secs += o.adv; if (secs) stats->add("sim_seconds", secs); }
    if (sr.sb_buffered) { stats->add("probe.stores_delayed_in_store_buffer", sr.sb_buffered); stats->add("probe.loads_served_from_own_store_buffer", sr.sb_forwarded); }
    if (c.factory_reenters) stats->add("probe.factory_reentered_the_library");
    if (c.sched.exit_at_step >= 0) { stats->add("probe.simulated_exit_while_tasks_run"); if (sr.exit_handlers_run) stats->add("probe.library_static_destructors_run_at_exit", sr.exit_handlers_run); }
    if (library_exit_handlers_registered()) stats->add("probe.library_static_destructors_pending", library_exit_handlers_registered());
    if (unjudged_deadlock) stats->add("probe.reentrant_factory_deadlock_left_unjudged");
    { int64_t n = 0; for (const LoadRec& lr : x.loads) n += lr.threw; if (n) stats->add("probe.load_exited_by_exception", n); }
    if (sr.tls_blocks) stats->add("probe.thread_local_instances_created", sr.tls_blocks);
    if (sr.cond_timeouts) stats->add("cond_timeouts", sr.cond_timeouts);
    stats->add("loads", static_cast<int64_t>(x.loads.size()));
    stats->add("queries", static_cast<int64_t>(x.queries.size()));
    stats->add("factory_calls", static_cast<int64_t>(ncalls));
    if (overlap) stats->add("probe.overlapping_loads_same_name");
    if (both_missed) stats->add("probe.both_missed_cs1");
    if (after_toggle) stats->add("probe.load_after_state_toggle");
    if (fac.overlapping_source_reads) stats->add("probe.overlapping_source_reads");
    stats->add("tasks", static_cast<int64_t>(c.tasks.size()));
    stats->add(std::string("chooser.") + chooser_name(c.sched.chooser));
    stats->add("mode." + c.mode);
    for (auto& kv : rt.faults_fired) stats->add("fault." + kv.first, kv.second);
    for (auto& kv : rt.probes) stats->add("probe." + kv.first, kv.second);
    rt.faults_fired.clear(); rt.probes.clear();
  }
  fac.catalogue = nullptr;
  env.active = false; fs.active = false;
  return out;
}

}  // namespace sim
