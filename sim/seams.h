// The I/O, environment, heap and sanitizer seams (all reached at link time or
// through cctz's own zone_info_source_factory extension point).
#ifndef SIM_SEAMS_H_
#define SIM_SEAMS_H_

#include <cstdint>
#include <map>
#include <string>
#include <vector>

#include "util.h"

namespace sim {

// ------------------------------------------------------------ run bookkeeping
struct UbReport { std::string kind; std::string file; unsigned line = 0; uintptr_t pc = 0; int task = -1; };
struct RaceReport { std::string desc; std::string fn0, fn1; std::string stack0, stack1; int write0 = 0, write1 = 0; bool cctz_frame = false; bool finalized = false; };

struct Runtime {
  // Identification of what is running now (for crash markers).
  const char* property = "";
  const char* build = "";
  int64_t run_index = -1;
  const char* phase = "";
  uint64_t seed = 0;
  char tags[256] = {0};          // input preconditions of the running case (space separated), for crash markers
  // Per-run collections, reset by begin_run().
  std::vector<UbReport> ub;
  std::vector<RaceReport> races;
  std::map<std::string, int64_t> probes;       // "this happened" counters
  std::map<std::string, int64_t> faults_fired; // fault kind -> times it actually fired
};
extern Runtime rt;

void begin_run(int64_t run_index);
void finalize_races();                // symbolize TSan reports collected during the run (call outside tasks)
void set_phase(const char* phase);
void install_crash_handlers();       // SIGALRM watchdog, SEGV & friends for uninstrumented builds, terminate
void arm_watchdog(int cpu_seconds, int wall_seconds);
void disarm_watchdog();
void crash_marker(const char* kind, const char* detail);   // async-signal-safe; writes one JSON line to fd 1
std::string symbolize_fn(uintptr_t pc);                    // innermost function name at pc ("" if unknown)
inline void probe(const char* name, int64_t n = 1) { rt.probes[name] += n; }
inline void fired(const char* kind, int64_t n = 1) { rt.faults_fired[kind] += n; }

// ------------------------------------------------------------ SimFactory
struct CatEntry {
  enum Kind { BYTES, ABSENT, FALLTHROUGH } kind = ABSENT;
  std::string bytes;
  // Stream faults (apply to every source handed out while set).
  int64_t eio_at = -1;      // Read returns the bytes before this offset, then 0 for ever
  int64_t short_at = -1;    // the one Read that crosses this offset is cut short there (stream continues)
  int skip_mode = 0;        // 0: exact (fails past EOF)  1: always fails  2: succeeds past EOF (fseek-like)  3: clamps to EOF
  int null_times = 0;       // first N factory calls for this name return nullptr ("transient open failure")
  int eio_times = -1;       // if >=0: eio_at applies only to the first N sources, later ones are healthy
  int throw_times = 0;      // first N factory calls for this name exit by exception (user code may throw)
  int read_throw_times = 0; // first N sources handed out throw from their second Read
  std::string version;      // ZoneInfoSource::Version()
  // Bookkeeping
  int sources_made = 0;
  int calls = 0;
};

struct FactoryCall {
  std::string name;         // full (salted) name
  int task = -1;
  bool in_task = false;
  bool on_sim_thread = true;
  uint64_t seq_in = 0, seq_out = 0;
  std::vector<int> in_flight_at_entry;  // indices into calls
  bool gave_source = false;
  bool done = false;
  int reads = 0, skips = 0;
  int64_t bytes_served = 0;
  std::string task_op;      // what the invoking task's script said it was doing
  bool used_fallback = false;
  bool threw = false;       // the invocation (or a Read of the source it returned) exited by exception
};

struct FactoryState {
  std::map<std::string, CatEntry>* catalogue = nullptr;  // null => fall through to the built-in source
  std::vector<FactoryCall> calls;
  int factory_yields = 1;          // extra yields between entry and exit
  int64_t read_call_cap = 0;       // >0: a source that is asked for more than this many Read/Skip calls reports a storm
  bool read_storm = false;
  int sources_alive = 0;
  int overlapping_source_reads = 0;
  std::vector<std::string> task_op;  // per task: the name argument of the load in progress ("" if none)
  int reenter = 0;                   // what the factory itself does with cctz while it runs: 0 nothing, 1 fixed_time_zone, 2 loads another name, 3 local_time_zone, 4 format/lookup on UTC
  std::string reenter_name;          // mode 2: the other name (served from the catalogue)
  std::string wildcard_prefix;       // names starting with this (and not in the catalogue) are served wildcard_entry
  CatEntry wildcard_entry;
};
extern FactoryState fac;
void factory_reset(std::map<std::string, CatEntry>* cat, int ntasks);
int wrong_thread_calls();
void reset_wrong_thread_calls();

// ------------------------------------------------------------ SimFS / SimEnv
struct FsNode {
  enum Kind { REG, DIR, NOPERM, FIFO } kind = REG;
  std::string bytes;
};
struct OpenFault { int open_index = -1; int err = 0; };            // the n-th fopen of the run fails with errno
struct ReadFault { int open_index = -1; int64_t at = -1; int err = 0; bool transient = false; };  // cookie read error at byte offset
struct FsState {
  bool active = false;
  std::map<std::string, FsNode> nodes;
  std::vector<OpenFault> open_faults;
  std::vector<ReadFault> read_faults;
  int seek_fail_open_index = -1;   // cookie seek fails (ESPIPE) on this open (-2: on all)
  size_t chunk = 4096;             // max bytes per cookie read
  // log
  std::vector<std::string> other_api;    // file-system entry points other than fopen that the library used, "name(path)"
  std::string unsupported_api;           // ... one of them that the simulated file system cannot serve (open, opendir, ...): no verdict possible
  std::vector<std::string> opens;  // "path -> ok|ERRNAME"
  int open_count = 0;
  int handles_open = 0;
  int64_t cookie_reads = 0;
};
extern FsState fs;
struct EnvState {
  bool active = false;
  std::map<std::string, std::string> vars;  // present => set
  std::vector<std::string> reads;
};
extern EnvState env;
// Simulated wall clock.  cctz reads no clock at all today; the seam exists so that a change which makes it read one
// is (a) still simulated deterministically and (b) visible to the oracles, which give different loads / steps different "now"s.
struct ClockState {
  bool active = false;
  int64_t now = 1790000000;   // seconds since the epoch handed to every clock_gettime/gettimeofday/time call in the process while active (2026-09-21)
  int64_t skew = 0;           // added for the real-time clocks only (they may jump backwards; the monotonic ones never do)
  int64_t reads = 0;
};
extern ClockState clk;
// Process credentials as the library could see them (getauxval(AT_SECURE), get[e]uid, get[e]gid, secure_getenv).
// cctz consults none of them; a set-ID world must therefore behave exactly like a plain one.
// Character classification as a non-C locale would do it (bytes >= 0x80 may be letters, digits or blanks; dotless/dotted
// i case mapping).  The zone loader uses no <cctype> function on the unchanged tree; if a change introduces one, the
// outcome of a load must still be a function of the bytes alone.
struct CtypeState { int mode = 0; int64_t calls = 0; };   // 0: the C locale (real libc), 1: "foreign"
extern CtypeState ctypes;
struct PrivState { bool active = false; bool secure = false; int64_t reads = 0; };
extern PrivState priv;
void fs_reset();
// Path resolution of the simulated file system (collapses '//' and '/./', honours a trailing '/').
const FsNode* fs_resolve(const std::string& path, int* err);
void env_reset();

// ------------------------------------------------------------ heap budget
void heap_set_budget(int64_t bytes);   // <=0: unlimited
int64_t heap_peak_request();
bool heap_budget_hit();

}  // namespace sim
#endif
