#include "tzif.h"

#include <algorithm>

namespace sim {

namespace {
void app32(std::string* s, int64_t v) { size_t o = s->size(); s->append(4, '\0'); put32(s, o, v); }
void app64(std::string* s, int64_t v) { size_t o = s->size(); s->append(8, '\0'); put64(s, o, v); }

void write_header(std::string* s, char version, size_t isut, size_t isstd, size_t leap, size_t timecnt,
                  size_t typecnt, size_t charcnt) {
  s->append("TZif", 4);
  s->push_back(version);
  s->append(15, '\0');
  app32(s, static_cast<int64_t>(isut)); app32(s, static_cast<int64_t>(isstd)); app32(s, static_cast<int64_t>(leap));
  app32(s, static_cast<int64_t>(timecnt)); app32(s, static_cast<int64_t>(typecnt)); app32(s, static_cast<int64_t>(charcnt));
}

void write_block(std::string* s, const TzData& d, int time_len) {
  for (int64_t t : d.times) { if (time_len == 4) app32(s, std::max<int64_t>(INT32_MIN, std::min<int64_t>(INT32_MAX, t))); else app64(s, t); }
  for (uint8_t i : d.idx) s->push_back(static_cast<char>(i));
  for (const TzType& t : d.types) { app32(s, t.utoff); s->push_back(static_cast<char>(t.isdst)); s->push_back(static_cast<char>(t.abbrind)); }
  s->append(d.abbrs);
  for (uint8_t b : d.isstd) s->push_back(static_cast<char>(b));
  for (uint8_t b : d.isut) s->push_back(static_cast<char>(b));
}
}  // namespace

std::string write_tzif(const TzData& d) {
  std::string s;
  if (d.version == '\0') {
    write_header(&s, d.version, d.isut.size(), d.isstd.size(), 0, d.times.size(), d.types.size(), d.abbrs.size());
    write_block(&s, d, 4);
    return s;
  }
  if (d.fat_v1) {
    write_header(&s, d.version, d.isut.size(), d.isstd.size(), 0, d.times.size(), d.types.size(), d.abbrs.size());
    write_block(&s, d, 4);
  } else {  // slim: minimal 32-bit block, as zic -b slim writes
    write_header(&s, d.version, 0, 0, 0, 0, 1, 1);
    app32(&s, 0); s.push_back('\0'); s.push_back('\0');  // one type
    s.push_back('\0');                                   // one abbreviation char
  }
  write_header(&s, d.version, d.isut.size(), d.isstd.size(), 0, d.times.size(), d.types.size(), d.abbrs.size());
  write_block(&s, d, 8);
  s.push_back('\n'); s.append(d.footer); s.push_back('\n');
  return s;
}

TzLayout layout_of(const std::string& b) {
  TzLayout L;
  L.total = b.size();
  if (b.size() < 44 || b.compare(0, 4, "TZif") != 0) return L;
  L.version = b[4];
  int64_t c[6];
  for (int i = 0; i < 6; ++i) { L.counts1[i] = 20 + 4 * static_cast<size_t>(i); c[i] = get32(b, L.counts1[i]); if (c[i] < 0) return L; }
  auto datalen = [](const int64_t* cc, size_t tl) {
    return static_cast<size_t>(cc[3]) * (tl + 1) + static_cast<size_t>(cc[4]) * 6 + static_cast<size_t>(cc[5]) +
           static_cast<size_t>(cc[2]) * (tl + 4) + static_cast<size_t>(cc[1]) + static_cast<size_t>(cc[0]);
  };
  L.data1 = 44; L.data1_len = datalen(c, 4);
  size_t base = 44;
  L.time_len = 4;
  if (L.version != '\0') {
    L.hdr2 = 44 + L.data1_len;
    if (L.hdr2 + 44 > b.size() || b.compare(L.hdr2, 4, "TZif") != 0) return L;
    for (int i = 0; i < 6; ++i) { L.counts2[i] = L.hdr2 + 20 + 4 * static_cast<size_t>(i); c[i] = get32(b, L.counts2[i]); if (c[i] < 0) return L; }
    base = L.hdr2 + 44;
    L.time_len = 8;
  }
  L.timecnt = static_cast<size_t>(c[3]); L.typecnt = static_cast<size_t>(c[4]); L.charcnt = static_cast<size_t>(c[5]);
  L.times = base;
  L.idx = L.times + L.timecnt * L.time_len;
  L.types = L.idx + L.timecnt;
  L.abbrs = L.types + L.typecnt * 6;
  L.tail = L.abbrs + L.charcnt;
  size_t end = base + datalen(c, L.time_len);
  if (end > b.size()) return L;
  if (L.version != '\0') {
    L.footer = end;
    if (end < b.size() && b[end] == '\n') {
      size_t nl = b.find('\n', end + 1);
      L.footer_len = (nl == std::string::npos) ? b.size() - end : nl + 1 - end;
    }
  }
  L.ok = true;
  return L;
}

bool parse_tzif(const std::string& b, TzData* d, TzLayout* lay) {
  TzLayout L = layout_of(b);
  if (lay) *lay = L;
  if (!L.ok) return false;
  d->version = L.version;
  d->times.clear(); d->idx.clear(); d->types.clear();
  for (size_t i = 0; i < L.timecnt; ++i)
    d->times.push_back(L.time_len == 8 ? get64(b, L.times + 8 * i) : get32(b, L.times + 4 * i));
  for (size_t i = 0; i < L.timecnt; ++i) d->idx.push_back(static_cast<uint8_t>(b[L.idx + i]));
  for (size_t i = 0; i < L.typecnt; ++i) {
    TzType t; t.utoff = static_cast<int32_t>(get32(b, L.types + 6 * i));
    t.isdst = static_cast<uint8_t>(b[L.types + 6 * i + 4]); t.abbrind = static_cast<uint8_t>(b[L.types + 6 * i + 5]);
    d->types.push_back(t);
  }
  d->abbrs = b.substr(L.abbrs, L.charcnt);
  d->footer.clear();
  if (L.footer_len >= 2) d->footer = b.substr(L.footer + 1, L.footer_len - 2);
  return true;
}

TzData marker_zone(const std::string& abbr, int32_t utoff, char version) {
  TzData d;
  d.version = version;
  TzType t; t.utoff = utoff; t.isdst = 0; t.abbrind = 0;
  d.types.push_back(t);
  d.abbrs = abbr; d.abbrs.push_back('\0');
  d.footer = "";  // empty footer: last transition prevails
  return d;
}

static std::string fmt_off(int32_t secs_west) {  // POSIX sign convention: positive = west
  std::string s;
  if (secs_west < 0) { s += "-"; secs_west = -secs_west; }
  char b[32];
  int h = secs_west / 3600, m = (secs_west / 60) % 60, sec = secs_west % 60;
  if (sec) snprintf(b, sizeof b, "%d:%02d:%02d", h, m, sec);
  else if (m) snprintf(b, sizeof b, "%d:%02d", h, m);
  else snprintf(b, sizeof b, "%d", h);
  return s + b;
}
static std::string fmt_abbr(const std::string& a) {
  bool alpha = a.size() >= 3;
  for (char c : a) if (!((c >= 'A' && c <= 'Z') || (c >= 'a' && c <= 'z'))) alpha = false;
  return alpha ? a : "<" + a + ">";
}

static std::string gen_date(Rng* r) {
  char b[64];
  if (r->chance(0.15)) {
    // Rules pushed against (and over) the ends of the year: with a time of up to +-167 h a transition can
    // fall into the neighbouring year and cross the other rule's transition of that year.
    static const char* edge[] = {"J365/167", "J365/49", "J365/26", "364/167", "365/100", "J1/-167", "J1/0", "0/-24", "0/0", "M12.5.6/167", "M12.5.0/120",
                                 "M1.1.0/-167", "M1.1.1/-48", "J1/-1", "J365/24", "J2/-30"};
    return edge[r->below(sizeof edge / sizeof *edge)];
  }
  switch (r->below(4)) {
    case 0: snprintf(b, sizeof b, "J%d", static_cast<int>(r->pick(std::vector<int>{1, 59, 60, 61, 100, 300, 365}))); break;
    case 1: snprintf(b, sizeof b, "%d", static_cast<int>(r->pick(std::vector<int>{0, 1, 58, 59, 60, 200, 364, 365}))); break;
    default:
      snprintf(b, sizeof b, "M%d.%d.%d", static_cast<int>(r->range(1, 12)), static_cast<int>(r->range(1, 5)), static_cast<int>(r->range(0, 6)));
  }
  std::string s = b;
  if (r->chance(0.6)) {
    static const char* times[] = {"0", "2", "3", "1:30", "24", "25", "26", "-1", "-2", "167", "-167", "+2", "2:00:00", "0:00:01", "23:59:59"};
    s += "/"; s += times[r->below(sizeof times / sizeof *times)];
  }
  return s;
}

std::string gen_posix_footer(Rng* r, bool valid) {
  static const std::vector<std::string> stds = {"EST", "UTC", "<-03>", "<+0330>", "AEST", "CET", "LongAbbrev", "<A>", "NZST", "<+1245>"};
  static const std::vector<std::string> offs = {"5", "0", "-1", "3:30", "-12:45", "24", "-24", "+8", "0:00:01", "-0", "12", "-14"};
  std::string s = r->pick(stds) + r->pick(offs);
  // Abbreviations are byte strings: letters beyond ASCII (as an 8-bit or UTF-8 locale would write them), blanks, punctuation.
  if (r->chance(0.06)) s = r->pick(std::vector<std::string>{"\xc4ST", "\xd6\xc4Z", "M\xc3\x89Z", "E\xa0T", "A_B", "e.s.t", "E T", "\xb2\xb3\xb9", "I\xfdi"}) + r->pick(offs);
  // Abbreviations have no length limit in the grammar: a quoted one of hundreds or thousands of characters is a valid sentence.
  auto long_abbr = [&]() { return "<" + std::string(static_cast<size_t>(r->pick(std::vector<int>{100, 200, 250, 254, 255, 256, 500, 1000, 1100, 2000, 4000})), static_cast<char>('A' + r->below(26))) + ">"; };
  if (r->chance(0.02)) s = long_abbr() + r->pick(offs);
  if (r->chance(0.75)) {
    static const std::vector<std::string> dsts = {"EDT", "<-02>", "CEST", "<+0430>", "NZDT", "XDT"};
    s += r->chance(0.05) ? r->pick(std::vector<std::string>{"\xd6""DT", "\xc3\x89T\xc3\x89", "D\xa0T", "d_t"}) : (r->chance(0.03) ? long_abbr() : r->pick(dsts));
    if (r->chance(0.4)) s += r->pick(offs);
    if (r->chance(0.12)) s += ",0/0,J365/" + std::to_string(r->range(23, 26));  // all-year-DST shape
    else { s += "," + gen_date(r) + "," + gen_date(r); }
  }
  if (valid) return s;
  // Near misses.
  if (r->chance(0.2)) {
    // Sentences whose length exactly fills (or just misses) the capacity steps of a std::string grown one
    // character at a time (15, 30, 60, 120, 240, ...): an over-read by one is then an out-of-bounds read.
    static const std::vector<int> caps = {15, 30, 60, 120, 240, 480};
    size_t L = static_cast<size_t>(r->pick(caps) + r->range(-1, 1));
    auto pad = [&](const std::string& head, const std::string& tail) {
      std::string t = head;
      static const char fill[] = "ABCDEFGHIJKLMNOPQRSTUVWXYZabcdefghijklmnopqrstuvwxyz0123456789+-";
      bool alnum_only = r->chance(0.5);
      while (t.size() + tail.size() < L) t.push_back(alnum_only ? fill[r->below(52)] : fill[r->below(64)]);
      return t + tail;
    };
    switch (r->below(8)) {
      case 0: return pad("<", "");                       // unterminated quoted abbreviation
      case 1: return pad("EST5<", "");                   // ... in the dst position
      case 2: return pad("", "");                        // a bare over-long abbreviation
      case 3: return pad("<", ">");                      // quoted abbreviation, offset missing
      case 4: return pad("<", ">5");                     // over-long but well-formed std-only spec
      case 5: return pad("EST5", ",M3.2.0,M11.1.0");     // over-long dst abbreviation
      case 6: return pad("EST5EDT,M3.2.0,M11.1.0/", ""); // junk where a time is expected
      default: return pad("<+", ">-3<+").substr(0, L);
    }
  }
  switch (r->below(16)) {
    case 0: return s.substr(0, r->below(s.size() + 1));                       // truncated anywhere
    case 1: { size_t c = s.find(','); return c == std::string::npos ? s + "," : s.substr(0, c + 1); }  // dropped rules
    case 2: { size_t c = s.rfind(','); return c == std::string::npos ? s + ",M3" : s.substr(0, c); }    // dropped 2nd rule
    case 3: return s + ",M3.2.0";                                              // extra field
    case 4: return r->pick(stds) + "25";                                       // hour out of range
    case 5: return r->pick(stds) + "5" + "EDT" + ",M13.1.0,M11.1.0";           // month out of range
    case 6: return r->pick(stds) + "5" + "EDT" + ",M3.6.0,M11.1.0";            // week out of range
    case 7: return r->pick(stds) + "5" + "EDT" + ",M3.2.7,M11.1.0";            // weekday out of range
    case 8: return r->pick(stds) + "5" + "EDT" + ",J0,J366";                   // julian out of range
    case 9: return r->pick(stds) + "5" + "EDT" + ",366,1";                     // day out of range
    case 10: return "ST" + r->pick(offs);                                      // abbreviation too short
    case 11: return ":" + s;                                                   // implementation-defined form
    case 12: return "<" + std::string(static_cast<size_t>(r->range(1, 4000)), '<');  // unterminated quoted
    case 13: return r->pick(stds) + r->pick(offs) + r->pick(stds);             // "STD0DST" without rules
    case 14: return r->pick(stds) + r->pick(offs) + "DST,M3,M11.1.0";          // rule cut inside Mm.w.d
    default: { std::string t = s; if (!t.empty()) t[r->below(t.size())] = static_cast<char>(r->below(256)); return t; }
  }
}

std::string std_footer_for(const std::string& abbr, int32_t utoff) { return fmt_abbr(abbr) + fmt_off(-utoff); }

TzData synth_zone(uint64_t recipe_seed) {
  Rng r(mix64(recipe_seed, 0x5eed));
  TzData d;
  static const char vers[] = {'\0', '2', '2', '3', '3', '4'};
  d.version = vers[r.below(6)];
  d.fat_v1 = (d.version != '\0') && r.chance(0.3);
  static const std::vector<int> ntypes_c = {1, 2, 2, 3, 5, 5, 12, 40, 256};
  static const std::vector<int> ntimes_c = {0, 0, 1, 2, 7, 7, 30, 150, 150, 1200};
  size_t ntypes = static_cast<size_t>(r.pick(ntypes_c));
  size_t ntimes = static_cast<size_t>(r.pick(ntimes_c));
  bool submin = r.chance(0.2);
  // Abbreviation pool with shared suffixes ("LMT", "MT", "T").
  std::vector<std::string> pool = {"LMT", "EST", "EDT", "EWT", "EPT", "+03", "-0330", "CEST", "EST", "T", "MT", "ABCDEFGH"};
  std::string chars;
  std::vector<uint8_t> abbr_starts;
  for (size_t i = 0; i < 8 && chars.size() < 200; ++i) {
    const std::string& a = r.pick(pool);
    abbr_starts.push_back(static_cast<uint8_t>(chars.size()));
    for (size_t k = 1; k < a.size() && k < 3; ++k) if (r.chance(0.3)) abbr_starts.push_back(static_cast<uint8_t>(chars.size() + k));  // suffix sharing
    chars += a; chars.push_back('\0');
  }
  d.abbrs = chars;
  for (size_t i = 0; i < ntypes; ++i) {
    TzType t;
    int64_t off = r.range(-95, 95) * 900;  // up to +-23:45
    if (submin) off += r.range(-59, 59);
    off = std::max<int64_t>(-86399, std::min<int64_t>(86399, off));
    t.utoff = static_cast<int32_t>(off);
    t.isdst = r.chance(0.4);
    t.abbrind = r.pick(abbr_starts);
    if (i > 0 && r.chance(0.1)) { t = d.types[r.below(i)]; if (r.chance(0.5)) t.isdst ^= 1; else t.abbrind = r.pick(abbr_starts); }  // isdst-only / abbr-only change
    d.types.push_back(t);
  }
  // Transition times: ascending, gaps large enough to keep civil order.
  int64_t t = r.chance(0.3) ? -(1LL << 59) : r.range(-5000000000LL, -1000000000LL);
  bool bigbang = (t == -(1LL << 59));
  for (size_t i = 0; i < ntimes; ++i) {
    d.times.push_back(t);
    uint8_t ti = static_cast<uint8_t>(r.below(ntypes));
    if (i > 0 && r.chance(0.08)) ti = d.idx.back();  // no-op transition (same type)
    d.idx.push_back(ti);
    if (i == 0 && bigbang) t = r.range(-5000000000LL, -1000000000LL);
    else t += r.chance(0.1) ? r.range(2 * 86400 + 2, 3 * 86400) : r.range(30 * 86400LL, 400 * 86400LL);
  }
  if (r.chance(0.45) && ntypes == d.types.size()) {
    // standard/wall and UT/local indicators: both arrays (what zic writes), only one of them, all zero, all one
    d.isstd.assign(ntypes, 0); d.isut.assign(ntypes, 0);
    int shape = static_cast<int>(r.below(5));
    for (size_t i = 0; i < ntypes; ++i) {
      d.isstd[i] = shape == 3 ? 0 : shape == 4 ? 1 : r.chance(0.5);
      d.isut[i] = shape == 3 ? 0 : (d.isstd[i] && r.chance(0.5));
    }
    if (shape == 1) d.isut.clear();       // std-only
    else if (shape == 2) d.isstd.clear(); // ut-only
  }
  if (d.version != '\0') {
    int mode = static_cast<int>(r.below(10));
    const TzType& lt = d.types[d.idx.empty() ? 0 : d.idx.back()];
    if (mode < 2) d.footer = "";
    else if (mode < 5 && !lt.isdst) {
      // std-only footer consistent with the last transition's type (or type 0).
      std::string ab = d.abbrs.c_str() + lt.abbrind;
      if (ab.empty()) ab = "UTC";
      d.footer = fmt_abbr(ab) + fmt_off(-lt.utoff);
    } else {
      // A DST rule footer (std-only and all-year-DST sentences must match the last type to be accepted,
      // so they are left to the fault injector).
      for (int tries = 0; tries < 20; ++tries) {
        d.footer = gen_posix_footer(&r, true);
        if (d.footer.find(',') != std::string::npos && d.footer.find(",0/0,J365") == std::string::npos) break;
      }
    }
  }
  return d;
}

}  // namespace sim
