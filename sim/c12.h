// Engine "c12": one hostile zone image offered through the ZoneInfoSource seam,
// then a query panel on whatever the loader accepted.
#ifndef SIM_C12_H_
#define SIM_C12_H_

#include <string>
#include <vector>

#include "engine.h"
#include "ops.h"

namespace sim {

struct ByteFault {
  std::string k;     // trunc flip zero ff splice dupblock dropblock hdr typeidx abbridx utoff isdst time version footer set
  int64_t a = 0, b = 0, v = 0;
  std::string s;
};

struct C12Case {
  std::string part;
  std::string base;                 // shipped:<rel> | synth:<n> | synthx:<n> | hex:<..>
  std::vector<ByteFault> faults;    // storage faults, applied in order
  int64_t eio_at = -1, short_at = -1;
  int skip_mode = 0;                // stream faults
  bool bystander = false;           // a second task loads and queries a healthy zone concurrently
  int preload = 0;                  // unrelated healthy loads before the hostile one
  int heap_budget_mib = 8;
  bool via_file = false;            // a third load takes the same bytes from the simulated file system through the built-in file source
  int file_chunk = 4096;            // ... whose reads return at most this many bytes
  uint64_t sched_seed = 1;
  std::vector<int> schedule;        // explicit schedule when replaying a bystander run
  bool explicit_schedule = false;
};

J c12_to_json(const C12Case& c);
bool c12_from_json(const J& j, C12Case* c);
C12Case gen_c12(const std::string& part, const std::string& tier, uint64_t seed, int64_t idx);
int64_t c12_part_size(const std::string& part, const std::string& tier);  // for enumerated parts
Outcome exec_c12(const C12Case& c, bool keep_log, Stats* stats);

std::string apply_faults(const std::string& base, const std::vector<ByteFault>& faults, int* noops, std::vector<bool>* applied = nullptr);
TzData synthx_zone(uint64_t seed);   // self-consistent but out-of-spec images

}  // namespace sim
#endif
