// Engine "c14a": single-task call histories on one zone.  Every checked answer is compared
// with the answer of a pristine twin (same bytes, fresh name) whose very first query it is.
#include "c14a.h"

#include <errno.h>

#include <algorithm>
#include <cinttypes>
#include <functional>

#include "cctz/time_zone.h"
#include "seams.h"
#include "simsched.h"

namespace sim {

J c14a_to_json(const C14aCase& c) {
  J j = J::obj();
  j.set("engine", "c14a"); j.set("property", "C14"); j.set("part", c.part); j.set("base", c.base);
  j.set("interval", c.interval);
  J st = J::arr();
  for (const Step& s : c.steps) { J q = query_to_json(s.q); q.set("check", s.check); if (s.zone) q.set("zone", s.zone); st.push(q); }
  j.set("steps", st);
  J sl = J::arr(); sl.push("steps");
  if (c.part == "order") {
    J ob = J::arr(); for (const std::string& b : c.order_bases) ob.push(b);
    j.set("order_bases", ob);
    J w = J::obj(); for (auto& kv : c.want) w.set(kv.first, kv.second);
    j.set("want", w);
    sl = J::arr(); sl.push("order_bases");
  }
  j.set("shrink_lists", sl);
  return j;
}

bool c14a_from_json(const J& j, C14aCase* c) {
  c->part = j.gets("part"); c->base = j.gets("base"); c->interval = j.geti("interval", -1);
  c->steps.clear();
  for (const J& q : j.at("steps").a) { Step s; s.q = query_from_json(q); s.check = q.getb("check", true); s.zone = static_cast<int>(q.geti("zone")); c->steps.push_back(s); }
  c->explicit_steps = true;
  if (j.has("order_bases")) { for (const J& b : j.at("order_bases").a) c->order_bases.push_back(b.s); }
  if (j.has("want")) { for (auto& kv : j.at("want").o) c->want[kv.first] = kv.second.s; }
  return !c->base.empty() || !c->order_bases.empty();
}

namespace {

uint64_t g_exec = 0;

// Per-process knowledge about a base image, obtained through the public API on scout copies.
struct ZoneInfo {
  std::string bytes;
  bool loads = false;
  std::vector<int64_t> T;                    // transition instants as cctz reports them
  std::vector<Query> from_to;                // civil probes at tr.from / tr.to (+-1 s), aligned 4 per transition
  std::map<std::string, std::string> want;   // fresh-twin answers, by query key
};
std::map<std::string, ZoneInfo>& zinfo() { static std::map<std::string, ZoneInfo> m; return m; }

std::string qkey(const Query& q) { return query_to_json(q).dump(); }

Query civil_q(const cctz::civil_second& cs, QKind k = Q_LOOKUP_CS) {
  Query q; q.k = k; q.a = cs.year(); q.b = pack_civil(cs.month(), cs.day(), cs.hour(), cs.minute(), cs.second());
  return q;
}

// Serve `bytes` under a fresh name and load it.
struct Loader {
  std::map<std::string, CatEntry> cat;
  std::string salt;
  int n = 0;
  Loader() {
    char sb[32];
    snprintf(sb, sizeof sb, "@%llu@", static_cast<unsigned long long>(++g_exec));
    salt = sb;
    env_reset(); fs_reset();
    env.active = true; fs.active = true;
    factory_reset(&cat, 1);
    fac.factory_yields = 0;
  }
  ~Loader() { fac.catalogue = nullptr; env.active = false; fs.active = false; }
  bool load(const std::string& bytes, cctz::time_zone* tz, const char* role) {
    std::string name = std::string(role) + "/" + salt + "/" + std::to_string(n++);
    CatEntry& e = cat[name];
    e.kind = CatEntry::BYTES; e.bytes = bytes;
    return cctz::load_time_zone(name, tz);
  }
};

ZoneInfo& info_for(const std::string& base, Loader* ld) {
  auto& m = zinfo();
  auto it = m.find(base);
  if (it != m.end()) return it->second;
  ZoneInfo& zi = m[base];
  zi.bytes = base_bytes(base);
  cctz::time_zone scout;
  zi.loads = !zi.bytes.empty() && ld->load(zi.bytes, &scout, "scout");
  if (!zi.loads) return zi;
  cctz::time_point<cctz::seconds> tp = cctz::time_point<cctz::seconds>::min();
  cctz::time_zone::civil_transition tr;
  for (int i = 0; i < 4000 && scout.next_transition(tp, &tr); ++i) {
    const cctz::time_zone::civil_lookup cl = scout.lookup(tr.to);
    int64_t t = cl.trans.time_since_epoch().count();
    if (!zi.T.empty() && t <= zi.T.back()) break;
    zi.T.push_back(t);
    zi.from_to.push_back(civil_q(tr.from - 1));
    zi.from_to.push_back(civil_q(tr.from));
    zi.from_to.push_back(civil_q(tr.to - 1));
    zi.from_to.push_back(civil_q(tr.to));
    tp = tp_of(t);
  }
  // Stored transitions that next_transition() skips as no-ops still own a hint index: give them intervals too.
  {
    TzData d; TzLayout L;
    if (parse_tzif(zi.bytes, &d, &L)) {
      std::vector<int64_t> all = zi.T;
      for (int64_t t : d.times) if (t > -(1LL << 59) && t < (1LL << 59)) all.push_back(t);
      std::sort(all.begin(), all.end());
      all.erase(std::unique(all.begin(), all.end()), all.end());
      std::vector<Query> ft;
      size_t k = 0;
      for (int64_t t : all) {
        while (k < zi.T.size() && zi.T[k] < t) ++k;
        if (k < zi.T.size() && zi.T[k] == t) { for (int d2 = 0; d2 < 4; ++d2) ft.push_back(zi.from_to[4 * k + static_cast<size_t>(d2)]); }
        else {
          cctz::civil_second a = cctz::convert(tp_of(t - 1), scout), b = cctz::convert(tp_of(t), scout);
          ft.push_back(civil_q(a - 1)); ft.push_back(civil_q(a)); ft.push_back(civil_q(b)); ft.push_back(civil_q(b + 1));
        }
      }
      zi.T = all; zi.from_to = ft;
    }
  }
  return zi;
}

const std::vector<std::string>& enum_panel(const std::string& tier) {
  static std::vector<std::string> quick = {"shipped:America/New_York", "shipped:Australia/Lord_Howe", "shipped:Africa/Monrovia",
                                           "shipped:Asia/Kathmandu", "shipped:Europe/Lisbon", "shipped:Pacific/Apia", "shipped:Africa/Casablanca", "shipped:Etc/UTC",
                                           "synth:501", "synth:503", "synth:505", "synth:508", "synth:512", "synth:520"};
  static std::vector<std::string> thorough;
  if (tier != "thorough") return quick;
  if (thorough.empty()) {
    for (const std::string& n : shipped_names()) thorough.push_back("shipped:" + n);
    for (int i = 0; i < 60; ++i) thorough.push_back("synth:" + std::to_string(500 + i));
  }
  return thorough;
}

const int kMaxIntervals = 1400;   // per zone: every stored transition plus the whole generated 401-year extension of a DST zone

void build_enum_steps(C14aCase* c, ZoneInfo& zi) {
  const std::vector<int64_t>& T = zi.T;
  const int64_t n = static_cast<int64_t>(T.size());
  const int64_t i = c->interval;   // interval i is [T[i-1], T[i]) with T[-1] = -inf, T[n] = +inf; i in 0..n
  // Setter: an instant strictly inside interval i, and the civil second it maps to (computed by the executor).
  int64_t s_tp;
  if (n == 0) s_tp = 0;
  else if (i <= 0) s_tp = T[0] - 86400 * 3;
  else if (i >= n) s_tp = T[n - 1] + 86400 * 3;
  else s_tp = T[i - 1] + (T[i] - T[i - 1]) / 2;
  Step set_tp; set_tp.q.k = Q_LOOKUP_TP; set_tp.q.a = s_tp; set_tp.check = false;
  Step set_cs; set_cs.q.k = Q_CONV_TP; set_cs.q.a = s_tp; set_cs.check = false; set_cs.then_lookup_cs = true;
  std::vector<Query> probes;
  auto add_tp = [&](int64_t t) { Query q; q.k = Q_LOOKUP_TP; q.a = t; probes.push_back(q); };
  auto around = [&](int64_t k) {  // both sides of transition k, instants and civil
    if (k < 0 || k >= n) return;
    add_tp(T[k] - 1); add_tp(T[k]); add_tp(T[k] + 1);
    for (int d = 0; d < 4; ++d) probes.push_back(zi.from_to[static_cast<size_t>(4 * k + d)]);
  };
  for (int64_t k = i - 2; k <= i + 1; ++k) around(k);
  around(0); around(n - 1);
  if (n) {
    add_tp(T[0] - 86400 * 365); add_tp(T[n - 1] + 86400LL * 365); add_tp(T[n - 1] + 12622780800LL); add_tp(T[n - 1] + 12622780800LL + 86400 * 200);
    add_tp((T[0] + T[n - 1]) / 2);
  }
  add_tp(0); add_tp(1700000000);
  { Query q; q.k = Q_FORMAT; q.a = s_tp + 1; q.fmt = 0; probes.push_back(q); }
  { Query q; q.k = Q_PARSE; q.fmt = 1; q.s = "2011-03-13 02:30:00"; probes.push_back(q); }
  { Query q; q.k = Q_NEXT; q.a = s_tp; probes.push_back(q); q.k = Q_PREV; probes.push_back(q); }
  for (const Query& p : probes) {
    c->steps.push_back(set_tp);
    c->steps.push_back(set_cs);
    Step s; s.q = p; s.check = true;
    c->steps.push_back(s);
  }
}

}  // namespace

std::map<std::string, std::string> g_c14_refs;

std::string zone_fingerprint(const cctz::time_zone& tz, const std::string& bytes) {
  uint64_t h = 0xf1;
  TzData d; TzLayout L;
  std::vector<int64_t> ts;
  if (parse_tzif(bytes, &d, &L)) for (int64_t t : d.times) if (t > -(1LL << 58) && t < (1LL << 58)) ts.push_back(t);
  std::sort(ts.begin(), ts.end());
  std::vector<int64_t> probes = {0, 1700000000, -5000000000LL};
  size_t from = ts.size() > 60 ? ts.size() - 60 : 0;
  for (size_t i = from; i < ts.size(); ++i) { probes.push_back(ts[i] - 1); probes.push_back(ts[i]); }
  // ... and the whole table, beginning and middle included: up to 150 more stored transitions, evenly spread
  { size_t step = from > 150 ? from / 150 : 1; for (size_t i = 0; i < from; i += step) { probes.push_back(ts[i] - 1); probes.push_back(ts[i]); } }
  int64_t last = ts.empty() ? 0 : ts.back();
  for (int k = 0; k < 160; ++k) probes.push_back(last + k * 9 * 86400LL + 3601);      // four years after the table, every nine days
  for (int k = 1; k <= 12; ++k) probes.push_back(last + k * 400LL * 31556952LL / 12);  // and across the 400-year seam
  for (int64_t t : probes) { Query q; q.k = Q_LOOKUP_TP; q.a = t; h = hash_str(run_query(tz, q), h); }
  { Query q; q.k = Q_NEXT; q.a = last - 400 * 86400LL;
    for (int hop = 0; hop < 14; ++hop) {
      cctz::time_zone::civil_transition tr;
      if (!tz.next_transition(tp_of(q.a), &tr)) break;
      std::string r = run_query(tz, q);
      h = hash_str(r, h);
      int64_t t = tz.lookup(tr.to).trans.time_since_epoch().count();
      if (t <= q.a) break;
      q.a = t;
    } }
  // the other direction and the other scan, a formatted and a parsed time, and what the zone says about itself
  for (size_t i = 0; i < ts.size(); i += (ts.size() > 40 ? ts.size() / 40 : 1)) {
    Civil c = civil_from_unix(ts[i] + 7200);
    Query q; q.k = Q_LOOKUP_CS; q.a = c.y; q.b = pack_civil(c.m, c.d, c.hh, c.mm, c.ss);
    h = hash_str(run_query(tz, q), h);
    q.k = Q_PREV; q.a = ts[i] + 1; h = hash_str(run_query(tz, q), h);
  }
  if (!ts.empty()) {   // civil times before the first stored transition, and the round trip through them
    for (int64_t back : {86400LL, 86400LL * 365 * 30, 86400LL * 365 * 130, 86400LL * 365 * 1000}) {
      Civil c = civil_from_unix(ts[0] - back);
      Query q; q.k = Q_LOOKUP_CS; q.a = c.y; q.b = pack_civil(c.m, c.d, c.hh, c.mm, c.ss);
      h = hash_str(run_query(tz, q), h);
      q.k = Q_CONV_CS; h = hash_str(run_query(tz, q), h);
      q.k = Q_LOOKUP_TP; q.a = ts[0] - back; q.b = 0; h = hash_str(run_query(tz, q), h);
    }
  }
  { Query q; q.k = Q_FORMAT; q.a = last + 86400 * 200; q.fmt = 0; h = hash_str(run_query(tz, q), h);
    q.k = Q_PARSE; q.fmt = 1; q.s = "2011-03-13 02:30:00"; h = hash_str(run_query(tz, q), h); }
  h = hash_str(tz.description(), h);
  h = hash_str(tz.version(), h);
  return hex64(h);
}

std::string fingerprint_of_base_alone(const std::string& base) {
  clear_zone_cache();
  Loader ld;
  cctz::time_zone tz;
  std::string bytes = base_bytes(base);
  if (bytes.empty() || !ld.load(bytes, &tz, "alone")) return "rejected";
  return zone_fingerprint(tz, bytes);
}

namespace {
// Shipped zones grouped by the rule string of their footer: zones that share it are the ones a process-wide table
// keyed by it (or by anything derived from it) would confuse.
const std::vector<std::vector<std::string>>& footer_groups() {
  static std::vector<std::vector<std::string>> groups;
  if (!groups.empty()) return groups;
  std::map<std::string, std::vector<std::string>> by;
  for (const std::string& n : shipped_names()) {
    TzData d; TzLayout L;
    if (parse_tzif(shipped_bytes(n), &d, &L)) by[d.footer].push_back(n);
  }
  for (auto& kv : by) if (kv.second.size() >= 2) groups.push_back(kv.second);
  return groups;
}
const std::vector<std::vector<std::string>>& abbr_groups() {
  static std::vector<std::vector<std::string>> groups;
  if (!groups.empty()) return groups;
  std::map<std::string, std::vector<std::string>> by;
  for (const std::string& n : shipped_names()) {
    TzData d; TzLayout L;
    if (!parse_tzif(shipped_bytes(n), &d, &L)) continue;
    size_t i = 0;
    while (i < d.abbrs.size()) { std::string a = d.abbrs.c_str() + i; if (!a.empty()) { auto& v = by[a]; if (v.empty() || v.back() != n) v.push_back(n); } i += a.size() + 1; }
  }
  for (auto& kv : by) if (kv.second.size() >= 2) groups.push_back(kv.second);
  return groups;
}
}  // namespace

static Outcome exec_order(const C14aCase& c, bool keep_log, Stats* stats) {
  Outcome out;
  clear_zone_cache();
  Loader ld;
  uint64_t lh = 0x140;
  std::string sofar;
  int64_t judged = 0;
  for (const std::string& b : c.order_bases) {
    std::string bytes = base_bytes(b);
    cctz::time_zone tz;
    std::string fp = (!bytes.empty() && ld.load(bytes, &tz, "order")) ? zone_fingerprint(tz, bytes) : "rejected";
    lh = hash_str(b + "=" + fp, lh);
    if (keep_log) out.log.push_back("load " + b + " -> fingerprint " + fp);
    auto w = c.want.find(b);
    const std::string* want = w != c.want.end() ? &w->second : nullptr;
    if (!want) { auto g = g_c14_refs.find(b); if (g != g_c14_refs.end()) want = &g->second; }
    if (want) {
      ++judged;
      if (*want != fp) {
        Violation v; v.cls = "c14:load-order-dependence"; v.site = b + " after other zones were loaded";
        v.detail = "fingerprint " + fp + ", but " + *want + " in a process that loads only this zone; loaded before it: " + (sofar.empty() ? "(nothing)" : sofar);
        out.violations.push_back(v);
      }
    }
    sofar += (sofar.empty() ? "" : ", ") + b;
  }
  out.nontrivial = judged > 0;
  out.log_hash = lh;
  out.distinct_key = lh;
  out.steps = static_cast<int64_t>(c.order_bases.size());
  if (!out.violations.empty() || keep_log) {
    // make the case self-contained for a replay: carry the references of the zones involved
    J w = J::obj();
    for (const std::string& b : c.order_bases) {
      if (c.want.count(b)) w.set(b, c.want.at(b));
      else if (g_c14_refs.count(b)) w.set(b, g_c14_refs.at(b));
    }
    out.extra = w;
  }
  if (stats) { stats->add("zones_loaded_in_sequence", static_cast<int64_t>(c.order_bases.size())); stats->add("fingerprints_compared_with_single_zone_process", judged); }
  return out;
}

int64_t c14a_part_size(const std::string& part, const std::string& tier) {
  if (part == "enum") return static_cast<int64_t>(enum_panel(tier).size()) * kMaxIntervals;
  return -1;
}

C14aCase gen_c14a(const std::string& part, const std::string& tier, uint64_t seed, int64_t idx) {
  C14aCase c;
  c.part = part;
  if (part == "enum") {
    const std::vector<std::string>& panel = enum_panel(tier);
    c.base = panel[static_cast<size_t>(idx / kMaxIntervals) % panel.size()];
    c.interval = idx % kMaxIntervals;   // steps are derived at execution time (they need the zone's transitions)
    return c;
  }
  Rng r(mix64(mix64(seed, hash_str("C14a" + part)), static_cast<uint64_t>(idx)));
  if (part == "order") {
    // Up to eight zones that share a footer rule, in random order, plus two from anywhere (and sometimes a synthetic one).
    const auto& groups = footer_groups();
    std::vector<std::string> g = groups.empty() ? std::vector<std::string>() : groups[r.below(groups.size())];
    if (r.chance(0.5) && !groups.empty()) { size_t big = 0; for (size_t i = 0; i < groups.size(); ++i) if (groups[i].size() > groups[big].size()) big = i; if (r.chance(0.5)) g = groups[big]; }
    uint64_t how = r.below(100);
    if (how < 20) {          // ... or zones that share an abbreviation (EST, CET, LMT, +03 ...), whatever their footers
      const auto& ag = abbr_groups();
      if (!ag.empty()) g = ag[r.below(ag.size())];
    } else if (how < 35) {   // ... or any ten zones
      g.clear();
      for (int i = 0; i < 10; ++i) g.push_back(r.pick(shipped_names()));
    }
    for (size_t i = g.size(); i > 1; --i) std::swap(g[i - 1], g[r.below(i)]);
    if (g.size() > 8) g.resize(8);
    for (const std::string& n : g) c.order_bases.push_back("shipped:" + n);
    for (int i = 0; i < 2; ++i) c.order_bases.insert(c.order_bases.begin() + static_cast<long>(r.below(c.order_bases.size() + 1)), "shipped:" + r.pick(shipped_names()));
    if (r.chance(0.3)) c.order_bases.insert(c.order_bases.begin() + static_cast<long>(r.below(c.order_bases.size() + 1)), "synth:" + std::to_string(r.below(200)));
    c.base = c.order_bases[0];
    return c;
  }
  uint64_t p = r.below(100);
  static const std::vector<std::string> popular = {"America/New_York", "Europe/London", "Australia/Lord_Howe", "Asia/Kathmandu", "Africa/Cairo",
                                                   "Pacific/Apia", "America/Sao_Paulo", "Asia/Tehran", "Africa/Casablanca", "Etc/UTC"};
  if (p < 50) c.base = "shipped:" + r.pick(popular);
  else if (p < 85) c.base = "shipped:" + r.pick(shipped_names());
  else c.base = "synth:" + std::to_string(r.below(3000));
  static std::map<std::string, ZoneShape> shapes;
  if (!shapes.count(c.base)) shapes[c.base] = shape_of(base_bytes(c.base));
  const ZoneShape& sh = shapes[c.base];
  int n = static_cast<int>(r.pick(std::vector<int>{60, 200, 200, 600, 2000}));
  if (tier != "thorough") n = std::min(n, 600);
  if (r.chance(0.01)) n = 6000;   // state that only flips after thousands of calls on one zone (counters, saturation)
  // Locality: histories revisit a few neighbourhoods so that hints are hit, missed and overwritten.
  std::vector<Query> pool;
  int npool = static_cast<int>(r.range(4, 40));
  for (int i = 0; i < npool; ++i) pool.push_back(gen_query(&r, sh, false));
  for (int i = 0; i < n; ++i) {
    Step s;
    if (r.chance(0.6)) {
      s.q = r.pick(pool);
      if (r.chance(0.5)) {  // wiggle by a few seconds / hours around the pooled point
        int64_t d = r.pick(std::vector<int64_t>{-3600, -1, 1, 3600, 86400, -86400});
        if (s.q.k == Q_LOOKUP_TP || s.q.k == Q_CONV_TP || s.q.k == Q_NEXT || s.q.k == Q_PREV || s.q.k == Q_FORMAT) { if (s.q.a < INT64_MAX - 100000 && s.q.a > INT64_MIN + 100000) s.q.a += d; }
      }
    } else s.q = gen_query(&r, sh, false);
    s.check = true;
    // After a call on another zone, half of the time the very same question is put to the subject (state keyed by the
    // arguments - or by the address of the caller's time_zone object - but not by the zone would answer for the wrong zone).
    if (!c.steps.empty() && c.steps.back().zone != 0 && r.chance(0.5)) s.q = c.steps.back().q;
    if (r.chance(0.12)) {   // a call on another zone in between; half of the time with the question just put to the subject
      s.zone = static_cast<int>(r.range(1, 3)); s.check = false;
      if (!c.steps.empty() && r.chance(0.5)) s.q = c.steps.back().q;
    }
    c.steps.push_back(s);
  }
  c.explicit_steps = true;
  return c;
}

Outcome exec_c14a(const C14aCase& cc, bool keep_log, Stats* stats) {
  if (cc.part == "order") return exec_order(cc, keep_log, stats);
  Outcome out;
  clear_zone_cache();
  Loader ld;
  C14aCase c = cc;
  ZoneInfo& zi = info_for(c.base, &ld);
  if (!zi.loads) { if (stats) stats->add("probe.base_rejected"); out.log_hash = 1; return out; }
  if (!c.explicit_steps) {
    if (c.interval > static_cast<int64_t>(zi.T.size())) { if (stats) stats->add("enum_beyond_last_interval"); out.log_hash = 2; return out; }
    build_enum_steps(&c, zi);
  }
  // The history runs on a simulated thread of its own (a fresh thread: its thread_locals start from their
  // initial state), every reference answer is produced on yet another fresh thread by a fresh copy of the
  // zone, and so is the reversed history.  "Earlier calls" therefore differ in everything a call could leave
  // behind: the zone's hints, the name cache, per-thread state and ambient C state such as errno.
  cctz::time_zone subject;
  cctz::time_zone decoy_zone, decoy_fixed, cur;
  bool decoy_loaded = false;
  uint64_t lh = 0x14;
  std::vector<std::string> log;
  auto viol = [&](const std::string& cls, const std::string& site, const std::string& detail) {
    Violation v; v.cls = cls; v.site = site; v.detail = detail; out.violations.push_back(v);
  };
  const bool random_mode = c.part != "enum" && c.interval < 0;
  std::vector<std::string> got(c.steps.size());
  std::vector<Query> asked(c.steps.size());
  int64_t checked = 0, fresh_loads = 0, hint_hits_possible = 0, tls_blocks = 0;
  SchedConfig scfg;
  scfg.chooser = CH_SEQUENTIAL;
  scfg.step_cap = 4000000;
  auto run_thread = [&](const std::function<void()>& fn) {
    std::vector<std::function<void()>> bodies;
    bodies.push_back([&] { NoYield ny; fn(); });
    SchedResult sr = run_tasks(bodies, scfg);
    tls_blocks += sr.tls_blocks;
    if (sr.deadlock || sr.steps_exceeded) viol("c14:stuck", sr.deadlock ? "deadlock" : "steps", sr.deadlock_info);
  };
  clk.active = true; clk.now = 1790000000LL;
  const int64_t clock_reads_before = clk.reads;
  run_thread([&] {
    ld.load(zi.bytes, &subject, "subject");
    decoy_fixed = cctz::fixed_time_zone(cctz::seconds(3600));
    for (size_t i = 0; i < c.steps.size(); ++i) {
      Query q = c.steps[i].q;
      if (c.steps[i].then_lookup_cs) {
        // civil setter: the civil second that the setter instant maps to, asked as lookup(cs)
        cctz::civil_second cs = cctz::convert(tp_of(q.a), subject);
        q = civil_q(cs);
      }
      asked[i] = q;
      clk.now = 1790000000LL + static_cast<int64_t>(i) * 40 * 86400;   // the calendar moves on by 40 days per call
      errno = (i % 3 == 0) ? ERANGE : ((i % 3 == 1) ? 0 : EINVAL);   // ambient C state left by "earlier calls" must not matter
      if (c.steps[i].zone != 0) {
        // Decoy: the same kind of call on a different zone; its answer is not judged here.
        if (c.steps[i].zone == 1 && !decoy_loaded) { ld.load(shipped_bytes(c.base == "shipped:Europe/London" ? "Asia/Tokyo" : "Europe/London"), &decoy_zone, "decoy"); decoy_loaded = true; }
        const cctz::time_zone& dz = c.steps[i].zone == 1 ? decoy_zone : (c.steps[i].zone == 2 ? cctz::utc_time_zone() : decoy_fixed);
        cur = dz;   // every call of the history goes through ONE time_zone variable that is re-bound as needed
        got[i] = run_query(cur, q);
        continue;
      }
      cur = subject;
      got[i] = run_query(cur, q);
    }
  });
  for (size_t i = 0; i < c.steps.size(); ++i) {
    if (c.steps[i].zone != 0) continue;
    lh = hash_str(got[i], lh);
    if (keep_log && log.size() < 400) log.push_back(std::string(c.steps[i].check ? "check " : "set   ") + query_text(asked[i]) + " = " + got[i]);
    if (c.steps[i].check && (!random_mode || i % 16 == 0 || c.steps.size() <= 64)) {
      const Query& q = asked[i];
      std::string key = qkey(q);
      auto it = zi.want.find(key);
      if (it == zi.want.end()) {
        std::string w;
        clk.now = 1790000000LL - 7000LL * 86400 - static_cast<int64_t>(i) * 86400;   // references are produced years earlier
        run_thread([&] {
          cctz::time_zone twin;
          errno = 0;
          ld.load(zi.bytes, &twin, "twin");
          errno = 0;
          w = run_query(twin, q);
        });
        ++fresh_loads;
        it = zi.want.emplace(key, w).first;
      }
      ++checked;
      if (it->second != got[i])
        viol("c14:hint-dependence", query_text(q) + " on " + c.base, "after " + (i ? query_text(asked[i - 1]) : std::string("(none)")) + " got '" + got[i] + "' but a freshly loaded copy on a fresh thread answers '" + it->second + "' (step " + std::to_string(i) + ")");
    }
  }
  if (random_mode) {
    // Second reference: one fresh copy, on a fresh thread, that is asked the same questions in reverse order.
    clk.now = 1790000000LL + 30000LL * 86400;   // ... and the reversed history eighty years later
    run_thread([&] {
      cctz::time_zone rev;
      ld.load(zi.bytes, &rev, "rev");
      for (size_t k = c.steps.size(); k-- > 0;) {
        if (!c.steps[k].check || c.steps[k].zone != 0) continue;
        std::string w = run_query(rev, asked[k]);
        ++checked;
        if (w != got[k]) { viol("c14:hint-dependence", query_text(asked[k]) + " on " + c.base, "forward history got '" + got[k] + "', reversed history got '" + w + "' (step " + std::to_string(k) + ")"); break; }
      }
    });
  }
  (void)hint_hits_possible;
  for (const UbReport& u : rt.ub) (void)u;  // UB in pure conversions is C12's business
  out.nontrivial = checked > 0;
  out.distinct_key = mix64(hash_str(c.base), random_mode ? lh : static_cast<uint64_t>(c.interval) * 2654435761ULL);
  out.log_hash = lh;
  out.steps = static_cast<int64_t>(c.steps.size());
  if (keep_log) out.log = log;
  if (!out.violations.empty() || keep_log) {
    J st = J::arr();
    for (size_t i = 0; i < asked.size(); ++i) { J q = query_to_json(asked[i]); q.set("check", c.steps[i].check); if (c.steps[i].zone) q.set("zone", c.steps[i].zone); st.push(q); }
    out.extra = st;
  }
  if (stats) {
    stats->add("queries", static_cast<int64_t>(c.steps.size()));
    stats->add("checked_answers", checked);
    stats->add("fresh_twin_loads", fresh_loads);
    stats->add(random_mode ? "random_histories" : "enumerated_hint_states");
    stats->add("sim_seconds", static_cast<int64_t>(c.steps.size()) * 40 * 86400);
    if (tls_blocks) stats->add("probe.thread_local_instances_created", tls_blocks);
    if (clk.reads != clock_reads_before) stats->add("probe.library_read_the_clock", clk.reads - clock_reads_before);
    if (!rt.ub.empty()) stats->add("ubsan_reports_counted_not_judged", static_cast<int64_t>(rt.ub.size()));
  }
  rt.faults_fired.clear(); rt.probes.clear();
  clk.active = false;
  return out;
}

}  // namespace sim
