// Common result types shared by the engines and the worker driver.
#ifndef SIM_ENGINE_H_
#define SIM_ENGINE_H_

#include <cstdint>
#include <map>
#include <string>
#include <vector>

#include "util.h"

namespace sim {

struct Violation {
  std::string cls;     // violation class, e.g. "c13:identity" or "ubsan:sub_overflow@cctz::TimeZoneInfo::LocalTime"
  std::string site;    // short, salt-free description of where/what
  std::string detail;  // free text
  std::vector<std::string> tags;  // input preconditions a known-findings entry may require
};

struct Outcome {
  std::vector<Violation> violations;
  uint64_t trace_hash = 0;   // which interleaving / fault path this was
  uint64_t sig_hash = 0;     // trace hash modulo the order of the tasks' independent first steps
  uint64_t log_hash = 0;     // what happened (full event log, salt-free)
  uint64_t digest = 0;       // C12: outcome digest (function of bytes alone)
  bool nontrivial = false;   // by the engine's stated rule
  uint64_t distinct_key = 0; // key for counting distinct non-trivial cases
  int64_t steps = 0;         // yield points executed (logical time)
  bool poisoned = false;     // process state can no longer be trusted (abandoned fibers): worker must exit
  std::vector<std::string> log;  // filled only when asked
  std::vector<int> schedule;     // recorded schedule (for replay files)
  std::vector<uint64_t> runnable_mask;  // per step (enumeration mode)
  J extra;                   // engine-specific info for replay files
};

struct Stats {
  std::map<std::string, int64_t> c;
  void add(const std::string& k, int64_t n = 1) { c[k] += n; }
};

// Resolve ${VERIF_REPO:-/repo}.
const std::string& repo_root();
// Shipped zone files (relative names, sorted) and their bytes (cached, read with the real fopen).
const std::vector<std::string>& shipped_names();
const std::string& shipped_bytes(const std::string& rel);
// Base recipe -> bytes: "shipped:<rel>", "synth:<seed>", "marker:<abbr>:<off>[:<ver>]", "hex:<hexbytes>".
std::string base_bytes(const std::string& base);

// Clear cctz's name cache (test-only API of the library) so that every
// execution starts from the same library state.
void clear_zone_cache();
extern bool g_cold_start;   // --cold: leave the library exactly as a fresh process has it (no cache reset, no UTC touch)

std::string strip_salt(const std::string& s, const std::string& salt);
std::string fixed_abbr(int64_t offset);      // independent re-implementation of the documented abbreviation
std::string fixed_name(int64_t offset);
bool builtin_name(const std::string& name, int64_t* offset);  // UTC, UTC0, Fixed/UTC+hh:mm:ss within 24h (from the documentation)      // "Fixed/UTC+hh:mm:ss" / "UTC"

}  // namespace sim
#endif
