// Engine "c19": name resolution over a simulated file system x environment, with syscall-level faults.
#ifndef SIM_C19_H_
#define SIM_C19_H_

#include <string>
#include <vector>

#include "engine.h"

namespace sim {

struct FsSpec {
  std::string path;
  std::string kind = "reg";     // reg | dir | noperm | fifo
  std::string content;          // marker[:ver] | badmagic | empty | leap | trunc:<k> | shipped:<rel>
  int marker = 0;               // identity encoded in the marker zone (abbr P%04d, offset marker*60 s)
};

struct C19Op {
  std::string op;               // load | local | default
  std::string name;             // load: the name argument
};

struct C19Fault {
  std::string k;                // open_errno | read_err | seek_fail
  int open_index = 0;           // which fopen of the run (read_err: -2 = every open)
  int64_t at = 0;               // read_err: byte offset
  int err = 0;
  bool transient = false;
};

struct C19Case {
  std::string part;
  bool tzdir_set = false, tz_set = false, lt_set = false;
  std::string tzdir, tz, lt;
  std::vector<FsSpec> fs;
  std::vector<C19Op> ops;
  std::vector<C19Fault> faults;
  bool secure = false;            // the first pass runs as a set-ID process (AT_SECURE=1, euid != uid); the replay pass always runs the other way round
  int premain_world = -1;         // part "premain": which of the pre-main worlds (executed by a global constructor before main) is judged
  int chunk = 4096, chunk2 = 0;   // chunk2 != 0: run the world a second time with this chunk size and compare
};

J c19_to_json(const C19Case& c);
bool c19_from_json(const J& j, C19Case* c);
C19Case gen_c19(const std::string& part, const std::string& tier, uint64_t seed, int64_t idx);
int64_t c19_part_size(const std::string& part, const std::string& tier);
Outcome exec_c19(const C19Case& c, bool keep_log, Stats* stats);

}  // namespace sim
#endif
