// Engine "c14a": hint-state enumeration and random single-task histories (C14 part A).
#ifndef SIM_C14A_H_
#define SIM_C14A_H_

#include <map>
#include <string>
#include <vector>

#include "cctz/time_zone.h"

#include "engine.h"
#include "ops.h"

namespace sim {

struct Step {
  Query q;
  bool check = true;            // compare the answer with a pristine twin's
  bool then_lookup_cs = false;  // setter: ask lookup(cs) for the civil second that instant q.a maps to
  int zone = 0;                 // 0: the subject zone; 1: a different real zone; 2: UTC; 3: a fixed-offset zone (decoy calls, never checked)
};

struct C14aCase {
  std::string part;             // enum | random
  std::string base;
  int64_t interval = -1;        // enum: which hint state (interval index) the setter establishes
  std::vector<Step> steps;      // explicit history (random mode, and every replay file)
  bool explicit_steps = false;
  // part "order": several zones are loaded one after another in this order; each must then look exactly as it does in
  // a process that loads nothing else (its fingerprint, taken in such a process, is in `want`).
  std::vector<std::string> order_bases;
  std::map<std::string, std::string> want;
};

// A digest of how a loaded zone behaves around the end of its stored table and in the years after it.
std::string zone_fingerprint(const cctz::time_zone& tz, const std::string& bytes);
std::string fingerprint_of_base_alone(const std::string& base);   // loads the base (and nothing else) in this process
extern std::map<std::string, std::string> g_c14_refs;             // base -> fingerprint from a process of its own (worker option --refs)

J c14a_to_json(const C14aCase& c);
bool c14a_from_json(const J& j, C14aCase* c);
C14aCase gen_c14a(const std::string& part, const std::string& tier, uint64_t seed, int64_t idx);
int64_t c14a_part_size(const std::string& part, const std::string& tier);
Outcome exec_c14a(const C14aCase& c, bool keep_log, Stats* stats);

}  // namespace sim
#endif
