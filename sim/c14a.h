// Engine "c14a": hint-state enumeration and random single-task histories (C14 part A).
#ifndef SIM_C14A_H_
#define SIM_C14A_H_

#include <string>
#include <vector>

#include "engine.h"
#include "ops.h"

namespace sim {

struct Step {
  Query q;
  bool check = true;            // compare the answer with a pristine twin's
  bool then_lookup_cs = false;  // setter: ask lookup(cs) for the civil second that instant q.a maps to
  int zone = 0;                 // 0: the subject zone; 1: a different real zone; 2: UTC; 3: a fixed-offset zone (decoy calls, never checked)
};

struct C14aCase {
  std::string part;             // enum | random
  std::string base;
  int64_t interval = -1;        // enum: which hint state (interval index) the setter establishes
  std::vector<Step> steps;      // explicit history (random mode, and every replay file)
  bool explicit_steps = false;
};

J c14a_to_json(const C14aCase& c);
bool c14a_from_json(const J& j, C14aCase* c);
C14aCase gen_c14a(const std::string& part, const std::string& tier, uint64_t seed, int64_t idx);
int64_t c14a_part_size(const std::string& part, const std::string& tier);
Outcome exec_c14a(const C14aCase& c, bool keep_log, Stats* stats);

}  // namespace sim
#endif
