// Query operations on a cctz::time_zone and their canonical text rendering.
#ifndef SIM_OPS_H_
#define SIM_OPS_H_

#include <cstdint>
#include <string>
#include <vector>

#include "cctz/time_zone.h"
#include "tzif.h"
#include "util.h"

namespace sim {

enum QKind : uint8_t { Q_LOOKUP_TP, Q_LOOKUP_CS, Q_NEXT, Q_PREV, Q_FORMAT, Q_PARSE, Q_CONV_TP, Q_CONV_CS, Q_DESC, Q_VERSION, Q_NAME, Q_NKINDS };
const char* qkind_name(int k);
int qkind_from(const std::string& s);

struct Civil { int64_t y; int m, d, hh, mm, ss; };
inline int64_t pack_civil(int m, int d, int hh, int mm, int ss) { return (((static_cast<int64_t>(m) * 32 + d) * 32 + hh) * 64 + mm) * 64 + ss; }
inline Civil unpack_civil(int64_t y, int64_t p) {
  Civil c; c.y = y; c.ss = static_cast<int>(p % 64); p /= 64; c.mm = static_cast<int>(p % 64); p /= 64;
  c.hh = static_cast<int>(p % 32); p /= 32; c.d = static_cast<int>(p % 32); p /= 32; c.m = static_cast<int>(p); return c;
}
Civil civil_from_unix(int64_t t);  // proleptic Gregorian, independent of cctz

struct Query {
  QKind k = Q_LOOKUP_TP;
  int64_t a = 0;      // instant (unix seconds) or civil year
  int64_t b = 0;      // packed civil month..second
  int fmt = 0;        // index into kFormats
  std::string s;      // parse input
  std::string fs;     // format string; empty: kFormats[fmt]
};
std::string gen_format(Rng* r);   // a sentence of cctz's format grammar (strftime specifiers, flags and widths, %E extensions, literals)
extern const char* const kFormats[];
extern const int kNumFormats;

std::string run_query(const cctz::time_zone& tz, const Query& q);
J query_to_json(const Query& q);
Query query_from_json(const J& j);
std::string query_text(const Query& q);

// Interesting instants / civil seconds for a zone image (decoded with our own reader).
struct ZoneShape {
  std::vector<int64_t> times;        // stored transition instants (may be empty)
  std::vector<int32_t> offs_before;  // offset in force before times[i]
  std::vector<int32_t> offs_after;
  bool has_dst_footer = false;
  int64_t last = 0;
};
ZoneShape shape_of(const std::string& bytes);
Query gen_query(Rng* r, const ZoneShape& sh, bool allow_meta);

inline cctz::time_point<cctz::seconds> tp_of(int64_t s) {
  return cctz::time_point<cctz::seconds>(cctz::seconds(s));
}

}  // namespace sim
#endif
