// Pre-main probe: a handful of C19 worlds executed from a global constructor that runs before every other dynamic
// initialiser of the program (init_priority 101) - cctz is meant to be usable from global constructors.
// Everything here is constant-initialised plain data, usable before any constructor has run.
#ifndef SIM_PREMAIN_H_
#define SIM_PREMAIN_H_

#include <stdio.h>

namespace sim {

struct PremainOp { int ok; int is_utc; char name[96]; char abbr[16]; int off; };
struct PremainState {
  int active;          // the pre-main world is installed: fopen/getenv are served from it
  int ran;             // the probe has run in this process
  int world;           // which world
  int fopen_calls;
  int unsupported_api;  // the library used open/openat/opendir before main(): cannot be judged
  PremainOp r[8];
};
extern PremainState g_premain;

const int kPremainOps = 6;
const char* premain_op_text(int i);
int premain_worlds();
void premain_env(int world, const char** tzdir, const char** tz);   // nullptr: unset
char* premain_getenv(const char* name);
FILE* premain_fopen(const char* path);
bool premain_exists(const char* path, bool* is_dir);   // the pre-main world's files (and their parent directories)

}  // namespace sim
#endif
