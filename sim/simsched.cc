// Scheduler core + the link-time seams that are pure scheduling concerns:
// pthread_mutex_lock/unlock, __cxa_guard_*, pthread_once, __tsan_atomic*.
#include "simsched.h"

#include <pthread.h>
#include <sys/mman.h>
#include <ucontext.h>
#include <unistd.h>

#include <algorithm>
#include <mutex>
#include <cstring>
#include <cerrno>
#include <ctime>

#if defined(SIM_ASAN)
extern "C" {
void __sanitizer_start_switch_fiber(void** fake_stack_save, const void* bottom, size_t size);
void __sanitizer_finish_switch_fiber(void* fake_stack_save, const void** bottom_old, size_t* size_old);
void __asan_unpoison_memory_region(void const volatile* addr, size_t size);
}
#endif
#if defined(SIM_TSAN)
extern "C" {
void* __tsan_get_current_fiber(void);
void* __tsan_create_fiber(unsigned flags);
void __tsan_destroy_fiber(void* fiber);
void __tsan_switch_to_fiber(void* fiber, unsigned flags);
void AnnotateIgnoreReadsBegin(const char* f, int l);
void AnnotateIgnoreReadsEnd(const char* f, int l);
void AnnotateIgnoreWritesBegin(const char* f, int l);
void AnnotateIgnoreWritesEnd(const char* f, int l);
void AnnotateBenignRaceSized(const char* f, int l, const volatile void* mem, size_t size, const char* desc);
}
static const unsigned kTsanNoSync = 1;
static inline void tsan_ignore_begin() { AnnotateIgnoreReadsBegin(__FILE__, __LINE__); AnnotateIgnoreWritesBegin(__FILE__, __LINE__); }
static inline void tsan_ignore_end() { AnnotateIgnoreWritesEnd(__FILE__, __LINE__); AnnotateIgnoreReadsEnd(__FILE__, __LINE__); }
#else
static inline void tsan_ignore_begin() {}
static inline void tsan_ignore_end() {}
#endif

namespace sim {

void sb_flush_current();   // drains the running task's store buffer (TSan build; a no-op elsewhere)
void sb_flush_prefix(size_t n);

static const char* kYieldNames[Y_NKINDS] = {
    "START", "LOCK", "UNLOCK", "FACTORY_IN", "FACTORY_MID", "FACTORY_OUT", "READ", "SKIP",
    "SRC_DTOR", "FOPEN", "CK_READ", "CK_SEEK", "CK_CLOSE", "ATOMIC_LD", "ATOMIC_ST",
    "ATOMIC_RMW", "OP", "BLOCKED", "END", "COND_WAIT", "COND_SIGNAL"};
const char* yield_name(int k) { return (k >= 0 && k < Y_NKINDS) ? kYieldNames[k] : "?"; }

namespace {

enum TaskState { T_RUNNABLE, T_BLOCKED, T_DONE };

struct Task {
  int id = 0;
  ucontext_t ctx;
  char* stack = nullptr;
  size_t stack_size = 0;
  TaskState st = T_RUNNABLE;
  const void* blocked_on = nullptr;
  bool on_cond = false;        // blocked_on is a condition variable (not a mutex)
  bool timed = false;          // ... in a timed wait: may be woken by a "timeout" when nothing else can run
  bool timed_out = false;
  uint8_t pending = Y_START;
  const std::function<void()>* body = nullptr;
  void* tsan_fiber = nullptr;
  void* asan_fake = nullptr;
  int guard_depth = 0;
  int noyield = 0;
  bool started = false;
  int prio = 0;
  // Thread-local storage of this simulated thread (library built with -femulated-tls; see __wrap___emutls_get_address).
  struct SbEntry { volatile void* addr; uint64_t val; int size; int mo; int ttl; };
  struct SbBuf {                // store buffer (see SchedConfig::store_buffer): fixed storage, so that the wrappers that run in
    SbEntry e[16];              // the middle of instrumented library code never call the allocator (ThreadSanitizer would take the
    size_t n = 0;               // harness's own allocations for the library's)
    bool empty() const { return n == 0; }
    size_t size() const { return n; }
    SbEntry& operator[](size_t i) { return e[i]; }
    void push_back(const SbEntry& x) { if (n < 16) e[n++] = x; }
    void drop_front(size_t k) { for (size_t i = k; i < n; ++i) e[i - k] = e[i]; n -= k; }
  } sb;
  char scope[48];               // stack of 'L' (inside library code) / 'H' (inside harness code called from it)
  int scope_sp = 0;
  std::vector<std::pair<void*, void*>> tls;                       // emutls control object -> this task's instance
  std::vector<std::pair<void (*)(void*), void*>> tls_dtors;      // registered through __cxa_thread_atexit
};

struct Sched {
  ucontext_t main_ctx;
  std::vector<Task*> tasks;
  int cur = -1;
  const SchedConfig* cfg = nullptr;
  SchedResult* res = nullptr;
  std::vector<std::pair<const void*, int>> owners;  // mutex -> owning task
  void* main_tsan_fiber = nullptr;
  void* main_asan_fake = nullptr;
  const void* main_stack_bottom = nullptr;
  size_t main_stack_size = 0;
  uint64_t seq = 0;
  uint64_t sb_rng = 0x9e3779b97f4a7c15ULL;
};

Sched* g = nullptr;
uint64_t g_seq_outside = 0;
std::vector<std::pair<char*, size_t>> g_stack_pool;
const size_t kStackSize = 256 * 1024;

char* alloc_stack(size_t* size) {
  *size = kStackSize;
  if (!g_stack_pool.empty()) {
    char* s = g_stack_pool.back().first;
    g_stack_pool.pop_back();
#if defined(SIM_ASAN)
    __asan_unpoison_memory_region(s, kStackSize);
#endif
    return s;
  }
  void* p = mmap(nullptr, kStackSize + 4096, PROT_READ | PROT_WRITE, MAP_PRIVATE | MAP_ANONYMOUS, -1, 0);
  if (p == MAP_FAILED) { perror("mmap stack"); _exit(3); }
  mprotect(p, 4096, PROT_NONE);
  return static_cast<char*>(p) + 4096;
}

// Switch from the current task back to the scheduler (main context).
void to_main(Task* t, bool finishing) {
#if defined(SIM_ASAN)
  __sanitizer_start_switch_fiber(finishing ? nullptr : &t->asan_fake, g->main_stack_bottom, g->main_stack_size);
#endif
#if defined(SIM_TSAN)
  // The last switch of a task is a synchronising one: it models join().
  __tsan_switch_to_fiber(g->main_tsan_fiber, finishing ? 0 : kTsanNoSync);
#endif
  swapcontext(&t->ctx, &g->main_ctx);
#if defined(SIM_ASAN)
  __sanitizer_finish_switch_fiber(t->asan_fake, nullptr, nullptr);
#endif
  (void)finishing;
}

void trampoline(unsigned lo, unsigned hi) {
  Task* t = reinterpret_cast<Task*>((static_cast<uintptr_t>(hi) << 32) | lo);
#if defined(SIM_ASAN)
  __sanitizer_finish_switch_fiber(nullptr, &g->main_stack_bottom, &g->main_stack_size);
#endif
  // Creation point: park immediately so that every task is "created" (with
  // a synchronising switch) before any of them runs.
  t->pending = Y_START;
  to_main(t, false);
  tsan_ignore_begin();
  (*t->body)();
  tsan_ignore_end();
  sb_flush_current();
  // "Thread exit": destructors of the thread's thread_local objects run on the thread, visible to TSan.
  while (!t->tls_dtors.empty()) {
    auto d = t->tls_dtors.back();
    t->tls_dtors.pop_back();
    d.first(d.second);
  }
  tsan_ignore_begin();
  for (auto& b : t->tls) free(b.second);
  t->tls.clear();
  tsan_ignore_end();
  t->st = T_DONE;
  t->pending = Y_END;
  to_main(t, true);
  _exit(4);  // unreachable
}

void to_task(Task* t) {
  g->cur = t->id;
#if defined(SIM_ASAN)
  __sanitizer_start_switch_fiber(&g->main_asan_fake, t->stack, t->stack_size);
#endif
#if defined(SIM_TSAN)
  __tsan_switch_to_fiber(t->tsan_fiber, t->started ? kTsanNoSync : 0);
#endif
  t->started = true;
  swapcontext(&g->main_ctx, &t->ctx);
#if defined(SIM_ASAN)
  __sanitizer_finish_switch_fiber(g->main_asan_fake, nullptr, nullptr);
#endif
  g->cur = -1;
}

int owner_of(const void* m) {
  for (auto& p : g->owners) if (p.first == m) return p.second;
  return -1;
}
void set_owner(const void* m, int id) {
  for (auto& p : g->owners) if (p.first == m) { p.second = id; return; }
  g->owners.emplace_back(m, id);
}
// Recursion depth of a (recursive) mutex held by its owner, and reader counts of rwlocks.
std::vector<std::pair<const void*, int>>& depths() { static std::vector<std::pair<const void*, int>> d; return d; }
int& depth_of(const void* m) {
  for (auto& p : depths()) if (p.first == m) return p.second;
  depths().emplace_back(m, 0);
  return depths().back().second;
}

}  // namespace

// Only the OS thread that runs the scheduler can be "in a task": a library that moved work to a helper
// thread must see plain pthread behaviour there (and is flagged by the factory monitor).
static thread_local bool tl_sim_thread = false;
bool in_task() { return tl_sim_thread && g != nullptr && g->cur >= 0; }
int cur_task() { return g ? g->cur : -1; }
uint64_t global_seq() { return g ? g->seq : g_seq_outside; }
uint64_t next_seq() { return g ? ++g->seq : ++g_seq_outside; }
void note_window(int) {}

static void scope_push(char k) { Task* t = g->tasks[g->cur]; if (t->scope_sp < 48) t->scope[t->scope_sp] = k; t->scope_sp++; }
static void scope_pop() { Task* t = g->tasks[g->cur]; if (t->scope_sp > 0) t->scope_sp--; }
static bool in_library() { if (!in_task()) return false; Task* t = g->tasks[g->cur]; return t->scope_sp > 0 && t->scope_sp <= 48 && t->scope[t->scope_sp - 1] == 'L'; }
bool in_library_scope() { return in_library(); }
// Store buffers (TSan build only; defined next to the atomic wraps).  Everything that is a full fence on the hardware
// drains the running task's buffer: lock and unlock, condition variables, static-initialisation guards, system calls
// (every seam), read-modify-write and seq_cst operations, and the end of the thread.
void sb_flush_current();
HarnessScope::HarnessScope() { if (in_task()) { if (in_library()) sb_flush_current(); tsan_ignore_begin(); scope_push('H'); } }
HarnessScope::~HarnessScope() { if (in_task()) { scope_pop(); tsan_ignore_end(); } }
LibraryScope::LibraryScope() { if (in_task()) { tsan_ignore_end(); scope_push('L'); } }
LibraryScope::~LibraryScope() { if (in_task()) { sb_flush_current(); scope_pop(); tsan_ignore_begin(); } }

static std::vector<std::pair<void (*)(void*), void*>>& lib_exit_handlers() { static std::vector<std::pair<void (*)(void*), void*>> v; return v; }
int library_exit_handlers_registered() { return static_cast<int>(lib_exit_handlers().size()); }
static int run_library_exit_handlers() {
  // What exit() does for this part of the program: most recently registered first.  Runs on the main context, with
  // ThreadSanitizer watching (the library's destructors are instrumented code) and no ordering against the tasks.
  int n = 0;
  auto& v = lib_exit_handlers();
  while (!v.empty()) { auto h = v.back(); v.pop_back(); h.first(h.second); ++n; }
  return n;
}

NoYield::NoYield() { if (in_task()) g->tasks[g->cur]->noyield++; }
NoYield::~NoYield() { if (in_task()) g->tasks[g->cur]->noyield--; }

namespace {
// What HarnessScope does, minus the store-buffer drain: a yield point is not a fence.
struct YieldScope {
  YieldScope() { tsan_ignore_begin(); scope_push('H'); }
  ~YieldScope() { scope_pop(); tsan_ignore_end(); }
};
}  // namespace

void yield(YieldKind k) {
  if (!in_task()) return;
  YieldScope hs;
  Task* t = g->tasks[g->cur];
  if (t->guard_depth > 0 || t->noyield > 0) return;
  if (!t->sb.empty()) {
    // The hardware drains the buffer whenever it likes: every entry got a random time to live (in yield points of its
    // task) when it was buffered; entries leave in order, so an expired one takes everything older with it.
    size_t upto = 0;
    for (size_t i = 0; i < t->sb.size(); ++i) if (--t->sb[i].ttl <= 0) upto = i + 1;
    if (k == Y_END || t->sb.size() > 12) upto = t->sb.size();
    if (upto) sb_flush_prefix(upto);
  }
  if (g->cfg->disabled_kinds & (1u << k)) return;
  t->pending = k;
  to_main(t, false);
}

SchedResult run_tasks(const std::vector<std::function<void()>>& bodies, const SchedConfig& cfg) {
  SchedResult res;
  Sched s;
  // ASan's swapcontext interceptor looks at uc_stack of the context being switched TO; for the main
  // context that field is never written by getcontext/swapcontext, so it must not hold stack garbage.
  memset(&s.main_ctx, 0, sizeof s.main_ctx);
  tl_sim_thread = true;
  s.cfg = &cfg;
  s.res = &res;
#if defined(SIM_TSAN)
  s.main_tsan_fiber = __tsan_get_current_fiber();
  {
    // std::call_once's two hand-over thread-locals exist once for all tasks here (see __wrap___emutls_get_address):
    // with real threads every thread has its own, so accesses from different tasks are not a race of the library's.
    static bool once = false;
    if (!once) {
      once = true;
      AnnotateBenignRaceSized(__FILE__, __LINE__, &std::__once_callable, sizeof std::__once_callable, "per-thread in reality");
      AnnotateBenignRaceSized(__FILE__, __LINE__, &std::__once_call, sizeof std::__once_call, "per-thread in reality");
    }
  }
#endif
  g = &s;
  s.sb_rng ^= cfg.seed * 0x2545F4914F6CDD1DULL;
  depths().clear();
  Rng rng(cfg.seed);
  for (size_t i = 0; i < bodies.size(); ++i) {
    Task* t = new Task;
    t->id = static_cast<int>(i);
    t->body = &bodies[i];
    t->stack = alloc_stack(&t->stack_size);
    getcontext(&t->ctx);
    t->ctx.uc_stack.ss_sp = t->stack;
    t->ctx.uc_stack.ss_size = t->stack_size;
    t->ctx.uc_link = nullptr;
    uintptr_t p = reinterpret_cast<uintptr_t>(t);
    makecontext(&t->ctx, reinterpret_cast<void (*)()>(trampoline), 2,
                static_cast<unsigned>(p & 0xffffffffu), static_cast<unsigned>(p >> 32));
#if defined(SIM_TSAN)
    t->tsan_fiber = __tsan_create_fiber(0);
#endif
    s.tasks.push_back(t);
  }
  // "Thread creation": first (synchronising) switch into every task; each parks at Y_START.
  for (Task* t : s.tasks) to_task(t);

  // PCT priorities.
  std::vector<int> change_points;
  if (cfg.chooser == CH_PCT) {
    std::vector<int> pr(s.tasks.size());
    for (size_t i = 0; i < pr.size(); ++i) pr[i] = static_cast<int>(i) + cfg.pct_depth + 1;
    for (size_t i = pr.size(); i > 1; --i) std::swap(pr[i - 1], pr[rng.below(i)]);
    for (size_t i = 0; i < pr.size(); ++i) s.tasks[i]->prio = pr[i];
    for (int d = 0; d + 1 < cfg.pct_depth; ++d) change_points.push_back(static_cast<int>(rng.below(std::max(1, cfg.pct_len))));
  }

  int last = -1;
  size_t sched_pos = 0;
  uint64_t th = 0x1234567, sg = 0x7654321;
  std::vector<Task*> R;
  size_t unfinished = s.tasks.size();
  while (unfinished > 0) {
    R.clear();
    for (Task* t : s.tasks) if (t->st == T_RUNNABLE) R.push_back(t);
    if (R.empty()) {
      // Discrete-event time: when nothing can run, the earliest timed wait expires.
      Task* tw = nullptr;
      for (Task* t : s.tasks) if (t->st == T_BLOCKED && t->on_cond && t->timed) { tw = t; break; }
      if (tw) { tw->st = T_RUNNABLE; tw->timed_out = true; tw->blocked_on = nullptr; res.cond_timeouts++; continue; }
      res.deadlock = true;
      for (Task* t : s.tasks) if (t->st == T_BLOCKED) {
        if (t->on_cond) { res.deadlock_info += "t" + std::to_string(t->id) + " waits on a condition variable nobody will signal; "; continue; }
        int o = owner_of(t->blocked_on);
        res.deadlock_info += "t" + std::to_string(t->id) + " waits for mutex held by t" + std::to_string(o) + "; ";
      }
      break;
    }
    if (cfg.exit_at_step >= 0 && res.steps == cfg.exit_at_step) res.exit_handlers_run += run_library_exit_handlers();
    Task* pick = nullptr;
    Task* lastt = (last >= 0 && s.tasks[last]->st == T_RUNNABLE) ? s.tasks[last] : nullptr;
    switch (cfg.chooser) {
      case CH_EXPLICIT: {
        // Entries naming a task that cannot run now (blocked, finished, or dropped by the minimiser) are skipped,
        // not consumed: what is left of a schedule keeps the relative order of the tasks that are still there.
        while (sched_pos < cfg.schedule.size() && !pick) {
          int want = cfg.schedule[sched_pos++];
          for (Task* t : R) if (t->id == want) pick = t;
        }
        if (!pick) pick = (lastt && !cfg.explicit_default_first) ? lastt : R[0];
        break;
      }
      case CH_UNIFORM: pick = R[rng.below(R.size())]; break;
      case CH_STICKY:
        pick = (lastt && rng.chance(cfg.sticky_p)) ? lastt : R[rng.below(R.size())];
        break;
      case CH_WINDOW: {
        bool hot = lastt && (lastt->pending == Y_UNLOCK || lastt->pending == Y_LOCK ||
                             lastt->pending == Y_FACTORY_IN || lastt->pending == Y_FACTORY_OUT ||
                             lastt->pending == Y_ATOMIC_LD);
        double stay = hot ? 0.35 : 0.92;
        if (lastt && rng.chance(stay)) pick = lastt;
        else {
          pick = R[rng.below(R.size())];
          if (hot && pick == lastt && R.size() > 1) pick = R[(rng.below(R.size() - 1) + 1 + (std::find(R.begin(), R.end(), lastt) - R.begin())) % R.size()];
        }
        break;
      }
      case CH_PCT: {
        for (int cp : change_points) if (cp == res.steps && lastt) lastt->prio = static_cast<int>(std::find(change_points.begin(), change_points.end(), cp) - change_points.begin());
        for (Task* t : R) if (!pick || t->prio > pick->prio) pick = t;
        break;
      }
      case CH_SEQUENTIAL: pick = R[0]; break;
    }
    { uint64_t m = 0; for (Task* t : R) if (t->id < 64) m |= (1ULL << t->id); res.runnable_mask.push_back(m); }
    res.schedule.push_back(pick->id);
    res.kinds.push_back(pick->pending);
    th = mix64(th, (static_cast<uint64_t>(pick->id) << 8) | pick->pending);
    if (pick->pending != Y_START) sg = mix64(sg, (static_cast<uint64_t>(pick->id) << 8) | pick->pending);
    if (pick->id != last) res.switches++;
    last = pick->id;
    ++s.seq;
    to_task(pick);
    if (pick->st == T_DONE) --unfinished;
    if (++res.steps > cfg.step_cap) { res.steps_exceeded = true; break; }
  }
  res.trace_hash = th;
  res.sig_hash = sg;
  bool clean = !res.deadlock && !res.steps_exceeded;
  for (Task* t : s.tasks) {
#if defined(SIM_TSAN)
    if (clean) __tsan_destroy_fiber(t->tsan_fiber);
#endif
    if (clean) g_stack_pool.emplace_back(t->stack, t->stack_size);  // abandoned stacks are leaked on purpose
    delete t;
  }
  g_seq_outside = s.seq;
  g = nullptr;
  return res;
}

// Exposed to the wraps below.
namespace detail {
struct EmuTlsControl { size_t size, align; union { uintptr_t index; void* address; } object; void* templ; };
void* task_tls(void* control) {
  Task* t = g->tasks[g->cur];
  for (auto& b : t->tls) if (b.first == control) return b.second;
  HarnessScope hs;
  const EmuTlsControl* c = static_cast<const EmuTlsControl*>(control);
  size_t al = c->align < 16 ? 16 : c->align;
  size_t sz = (c->size + al - 1) / al * al;
  void* p = aligned_alloc(al, sz ? sz : al);
  if (c->templ) memcpy(p, c->templ, c->size); else memset(p, 0, c->size);
  t->tls.emplace_back(control, p);
  g->res->tls_blocks++;
  return p;
}
void task_tls_atexit(void (*fn)(void*), void* obj) {
  HarnessScope hs;
  g->tasks[g->cur]->tls_dtors.emplace_back(fn, obj);
}
void mutex_lock_enter(const void* m, bool recursive) {
  Task* t = g->tasks[g->cur];
  sb_flush_current();
  yield(Y_LOCK);
  if (owner_of(m) == t->id && recursive) { depth_of(m)++; return; }   // recursive mutex re-entered by its owner
  // (a non-recursive mutex locked again by its owner blocks below and is reported as a deadlock)
  while (owner_of(m) >= 0 || (owner_of(m) == -2)) {
    g->res->contended_locks++;
    t->st = T_BLOCKED;
    t->blocked_on = m;
    t->pending = Y_BLOCKED;
    to_main(t, false);
  }
  set_owner(m, t->id);
  depth_of(m) = 1;
}
void mutex_unlock_leave(const void* m) {
  sb_flush_current();
  if (owner_of(m) == g->cur && depth_of(m) > 1) { depth_of(m)--; return; }
  depth_of(m) = 0;
  set_owner(m, -1);
  for (Task* t : g->tasks) if (t->st == T_BLOCKED && !t->on_cond && t->blocked_on == m) { t->st = T_RUNNABLE; t->blocked_on = nullptr; }
  yield(Y_UNLOCK);
}
// Condition variables.  The caller has already released the mutex (real + simulated).
bool cond_block(const void* cond, bool timed) {
  Task* t = g->tasks[g->cur];
  sb_flush_current();
  g->res->cond_waits++;
  t->st = T_BLOCKED; t->on_cond = true; t->timed = timed; t->timed_out = false; t->blocked_on = cond; t->pending = Y_COND_WAIT;
  to_main(t, false);
  t->on_cond = false; t->timed = false;
  return t->timed_out;
}
void cond_wake(const void* cond, bool all) {
  sb_flush_current();
  for (Task* t : g->tasks) if (t->st == T_BLOCKED && t->on_cond && t->blocked_on == cond) {
    t->st = T_RUNNABLE; t->blocked_on = nullptr;
    if (!all) break;
  }
  yield(Y_COND_SIGNAL);
}
void mutex_release_for_wait(const void* m) {
  set_owner(m, -1);
  for (Task* t : g->tasks) if (t->st == T_BLOCKED && !t->on_cond && t->blocked_on == m) { t->st = T_RUNNABLE; t->blocked_on = nullptr; }
}
void rw_rdlock_enter(const void* m) {
  Task* t = g->tasks[g->cur];
  sb_flush_current();
  yield(Y_LOCK);
  while (owner_of(m) >= 0) {   // a writer holds it
    g->res->contended_locks++;
    t->st = T_BLOCKED; t->blocked_on = m; t->pending = Y_BLOCKED;
    to_main(t, false);
  }
  set_owner(m, -2);
  depth_of(m)++;
}
void rw_unlock_leave(const void* m) {
  sb_flush_current();
  if (owner_of(m) == -2) { if (--depth_of(m) > 0) return; }
  depth_of(m) = 0;
  set_owner(m, -1);
  for (Task* t : g->tasks) if (t->st == T_BLOCKED && !t->on_cond && t->blocked_on == m) { t->st = T_RUNNABLE; t->blocked_on = nullptr; }
  yield(Y_UNLOCK);
}
void guard_enter() { if (in_task()) { sb_flush_current(); g->tasks[g->cur]->guard_depth++; } }
void guard_leave() { if (in_task() && g->tasks[g->cur]->guard_depth > 0) g->tasks[g->cur]->guard_depth--; }
}  // namespace detail

}  // namespace sim

// ------------------------------------------------------------------ wraps
extern "C" {

int __real_pthread_mutex_lock(pthread_mutex_t* m);
int __real_pthread_mutex_unlock(pthread_mutex_t* m);
int __real_pthread_mutex_trylock(pthread_mutex_t* m);
int __real___cxa_guard_acquire(void* g);
void __real___cxa_guard_release(void* g);
void __real___cxa_guard_abort(void* g);
int __real_pthread_once(pthread_once_t* once, void (*fn)(void));

int __wrap_pthread_mutex_lock(pthread_mutex_t* m) {
  if (!sim::in_task()) return __real_pthread_mutex_lock(m);
  { sim::HarnessScope hs; sim::detail::mutex_lock_enter(m, (m->__data.__kind & 127) == PTHREAD_MUTEX_RECURSIVE_NP); }
  return __real_pthread_mutex_lock(m);  // never blocks: the simulated owner table says it is free
}
int __wrap_pthread_mutex_trylock(pthread_mutex_t* m) {
  if (!sim::in_task()) return __real_pthread_mutex_trylock(m);
  sim::yield(sim::Y_LOCK);
  int r = __real_pthread_mutex_trylock(m);
  if (r == 0) { sim::HarnessScope hs; sim::set_owner(m, sim::cur_task()); }
  return r;
}
int __wrap_pthread_mutex_unlock(pthread_mutex_t* m) {
  if (!sim::in_task()) return __real_pthread_mutex_unlock(m);
  int r = __real_pthread_mutex_unlock(m);
  { sim::HarnessScope hs; sim::detail::mutex_unlock_leave(m); }
  return r;
}
int __wrap___cxa_guard_acquire(void* gd) {
  int r = __real___cxa_guard_acquire(gd);
  if (r) sim::detail::guard_enter();
  return r;
}
void __wrap___cxa_guard_release(void* gd) {
  __real___cxa_guard_release(gd);
  sim::detail::guard_leave();
}
void __wrap___cxa_guard_abort(void* gd) {
  __real___cxa_guard_abort(gd);
  sim::detail::guard_leave();
}
int __real_pthread_cond_wait(pthread_cond_t* c, pthread_mutex_t* m);
int __real_pthread_cond_timedwait(pthread_cond_t* c, pthread_mutex_t* m, const struct timespec* ts);
int __real_pthread_cond_clockwait(pthread_cond_t* c, pthread_mutex_t* m, clockid_t clk, const struct timespec* ts);
int __real_pthread_cond_signal(pthread_cond_t* c);
int __real_pthread_cond_broadcast(pthread_cond_t* c);

static int sim_cond_wait(pthread_cond_t* c, pthread_mutex_t* m, bool timed) {
  bool timed_out;
  {
    sim::HarnessScope hs;
    __real_pthread_mutex_unlock(m);
    sim::detail::mutex_release_for_wait(m);
    timed_out = sim::detail::cond_block(c, timed);   // parks; returns when signalled (or, timed, when nothing else could run)
    sim::detail::mutex_lock_enter(m, (m->__data.__kind & 127) == PTHREAD_MUTEX_RECURSIVE_NP);
  }
  __real_pthread_mutex_lock(m);
  return timed_out ? ETIMEDOUT : 0;
}
int __wrap_pthread_cond_wait(pthread_cond_t* c, pthread_mutex_t* m) {
  if (!sim::in_task()) return __real_pthread_cond_wait(c, m);
  return sim_cond_wait(c, m, false);
}
int __wrap_pthread_cond_timedwait(pthread_cond_t* c, pthread_mutex_t* m, const struct timespec* ts) {
  if (!sim::in_task()) return __real_pthread_cond_timedwait(c, m, ts);
  return sim_cond_wait(c, m, true);
}
int __wrap_pthread_cond_clockwait(pthread_cond_t* c, pthread_mutex_t* m, clockid_t clk, const struct timespec* ts) {
  if (!sim::in_task()) return __real_pthread_cond_clockwait(c, m, clk, ts);
  return sim_cond_wait(c, m, true);
}
int __wrap_pthread_cond_signal(pthread_cond_t* c) {
  if (!sim::in_task()) return __real_pthread_cond_signal(c);
  sim::HarnessScope hs;
  sim::detail::cond_wake(c, false);
  return 0;
}
int __wrap_pthread_cond_broadcast(pthread_cond_t* c) {
  if (!sim::in_task()) return __real_pthread_cond_broadcast(c);
  sim::HarnessScope hs;
  sim::detail::cond_wake(c, true);
  return 0;
}
int __real_pthread_rwlock_rdlock(pthread_rwlock_t* l);
int __real_pthread_rwlock_wrlock(pthread_rwlock_t* l);
int __real_pthread_rwlock_unlock(pthread_rwlock_t* l);
int __wrap_pthread_rwlock_rdlock(pthread_rwlock_t* l) {
  if (!sim::in_task()) return __real_pthread_rwlock_rdlock(l);
  { sim::HarnessScope hs; sim::detail::rw_rdlock_enter(l); }
  return __real_pthread_rwlock_rdlock(l);
}
int __wrap_pthread_rwlock_wrlock(pthread_rwlock_t* l) {
  if (!sim::in_task()) return __real_pthread_rwlock_wrlock(l);
  { sim::HarnessScope hs; sim::detail::mutex_lock_enter(l, false); }
  return __real_pthread_rwlock_wrlock(l);
}
int __wrap_pthread_rwlock_unlock(pthread_rwlock_t* l) {
  if (!sim::in_task()) return __real_pthread_rwlock_unlock(l);
  int r = __real_pthread_rwlock_unlock(l);
  { sim::HarnessScope hs; if (sim::owner_of(l) == -2) sim::detail::rw_unlock_leave(l); else sim::detail::mutex_unlock_leave(l); }
  return r;
}
// Thread identity: every task gets its own pthread_self() (and therefore its own std::this_thread::get_id()),
// so that library code keyed on the caller's identity sees distinct callers, as it would with real threads.
pthread_t __real_pthread_self(void);
pthread_t __wrap_pthread_self(void) {
  if (!sim::in_task()) return __real_pthread_self();
  return static_cast<pthread_t>(0x7f5100001000ULL + static_cast<unsigned long>(sim::cur_task() + 1) * 0x4000ULL);
}
// Thread-local storage: the library is compiled with -femulated-tls in the clang builds, so every access to a
// thread_local goes through __emutls_get_address; inside a task it is served from that task's own instance
// (initialised from the template like a new thread's), and thread_local destructors run when the task ends.
// Outside tasks the real thread's storage is used.  (pthread keys are NOT virtualised: the sanitizer runtimes in
// this very link find their own per-thread state through pthread_getspecific.)
// Thread-locals that the library may use but does not define: libstdc++.so exports std::__once_callable and
// std::__once_call (the hand-over of std::call_once, hence of std::async and std::future) as NATIVE thread-locals,
// and its __once_proxy reads them natively.  Code compiled with -femulated-tls asks for "__emutls_v.<name>" control
// objects instead, which nobody defines: define them here and serve the native variables' addresses for them (one
// instance for all tasks - harmless: call_once sets them and consumes them inside pthread_once, where nothing yields).
sim::detail::EmuTlsControl sim_ctl_once_callable __asm__("__emutls_v._ZSt15__once_callable") = {sizeof(void*), alignof(void*), {0}, nullptr};
sim::detail::EmuTlsControl sim_ctl_once_call __asm__("__emutls_v._ZSt11__once_call") = {sizeof(void*), alignof(void*), {0}, nullptr};
void* __real___emutls_get_address(void* control);
void* __wrap___emutls_get_address(void* control) {
  if (control == &sim_ctl_once_callable) return &std::__once_callable;
  if (control == &sim_ctl_once_call) return &std::__once_call;
  if (!sim::in_task()) return __real___emutls_get_address(control);
  return sim::detail::task_tls(control);
}
// Static destructors registered by library code (inside a task, in library scope) are kept here instead of being
// handed to the C runtime; see run_library_exit_handlers().
int __real___cxa_atexit(void (*fn)(void*), void* obj, void* dso);
int __wrap___cxa_atexit(void (*fn)(void*), void* obj, void* dso) {
  if (!sim::in_library()) return __real___cxa_atexit(fn, obj, dso);
  sim::HarnessScope hs;
  sim::lib_exit_handlers().emplace_back(fn, obj);
  return 0;
}
int __real___cxa_thread_atexit(void (*fn)(void*), void* obj, void* dso);
int __wrap___cxa_thread_atexit(void (*fn)(void*), void* obj, void* dso) {
  if (!sim::in_task()) return __real___cxa_thread_atexit(fn, obj, dso);
  sim::detail::task_tls_atexit(fn, obj);
  return 0;
}
int __wrap_pthread_once(pthread_once_t* once, void (*fn)(void)) {
  sim::detail::guard_enter();
  int r = __real_pthread_once(once, fn);
  sim::detail::guard_leave();
  return r;
}

#if defined(SIM_TSAN)
// Every atomic access made by instrumented (library) code is a yield point.  With SchedConfig::store_buffer the stores
// weaker than seq_cst are additionally delayed in a per-task FIFO (x86-TSO: a later load of another location may
// overtake them; the task's own loads see them; they drain in order) - the one kind of weak-memory behaviour that the
// hardware this code ships on actually shows, and that no sequentially consistent interleaving contains.
typedef int morder;
static const morder kSeqCst = 5;
static inline bool sb_on() { return sim::g != nullptr && sim::in_task() && sim::g->cfg->store_buffer; }
static bool sb_lookup(const volatile void* a, int size, uint64_t* v) {
  auto& sb = sim::g->tasks[sim::g->cur]->sb;
  for (size_t i = sb.size(); i-- > 0;) if (sb[i].addr == a && sb[i].size == size) { *v = sb[i].val; return true; }
  return false;
}
#define SIM_ATOMIC_WRAPS(N, T)                                                                          \
  T __real___tsan_atomic##N##_load(const volatile T* a, morder mo);                                      \
  T __wrap___tsan_atomic##N##_load(const volatile T* a, morder mo) {                                     \
    sim::yield(sim::Y_ATOMIC_LD);                                                                        \
    uint64_t fwd;                                                                                        \
    if (sb_on() && sb_lookup(a, N, &fwd)) { sim::g->res->sb_forwarded++; return static_cast<T>(fwd); }   \
    return __real___tsan_atomic##N##_load(a, mo);                                                        \
  }                                                                                                      \
  void __real___tsan_atomic##N##_store(volatile T* a, T v, morder mo);                                   \
  void __wrap___tsan_atomic##N##_store(volatile T* a, T v, morder mo) {                                  \
    sim::yield(sim::Y_ATOMIC_ST);                                                                        \
    if (sb_on() && mo != kSeqCst) {                                                                      \
      sim::g->sb_rng = sim::g->sb_rng * 6364136223846793005ULL + 1442695040888963407ULL;                \
      int ttl = static_cast<int>((sim::g->sb_rng >> 33) % static_cast<uint64_t>(sim::g->cfg->sb_ttl_max + 1)); \
      if (sim::g->tasks[sim::g->cur]->sb.size() >= 15) sim::sb_flush_current();   /* never lose a store */     \
      sim::g->tasks[sim::g->cur]->sb.push_back({a, static_cast<uint64_t>(v), N, mo, ttl});               \
      sim::g->res->sb_buffered++;                                                                        \
      return;                                                                                            \
    }                                                                                                    \
    sim::sb_flush_current();                                                                             \
    __real___tsan_atomic##N##_store(a, v, mo);                                                           \
  }                                                                                                      \
  T __real___tsan_atomic##N##_exchange(volatile T* a, T v, morder mo);                                   \
  T __wrap___tsan_atomic##N##_exchange(volatile T* a, T v, morder mo) {                                  \
    sim::yield(sim::Y_ATOMIC_RMW); sim::sb_flush_current();                                              \
    return __real___tsan_atomic##N##_exchange(a, v, mo);                                                 \
  }                                                                                                      \
  T __real___tsan_atomic##N##_fetch_add(volatile T* a, T v, morder mo);                                  \
  T __wrap___tsan_atomic##N##_fetch_add(volatile T* a, T v, morder mo) {                                 \
    sim::yield(sim::Y_ATOMIC_RMW); sim::sb_flush_current();                                              \
    return __real___tsan_atomic##N##_fetch_add(a, v, mo);                                                \
  }                                                                                                      \
  T __real___tsan_atomic##N##_fetch_sub(volatile T* a, T v, morder mo);                                  \
  T __wrap___tsan_atomic##N##_fetch_sub(volatile T* a, T v, morder mo) {                                 \
    sim::yield(sim::Y_ATOMIC_RMW); sim::sb_flush_current();                                              \
    return __real___tsan_atomic##N##_fetch_sub(a, v, mo);                                                \
  }                                                                                                      \
  T __real___tsan_atomic##N##_fetch_and(volatile T* a, T v, morder mo);                                  \
  T __wrap___tsan_atomic##N##_fetch_and(volatile T* a, T v, morder mo) {                                 \
    sim::yield(sim::Y_ATOMIC_RMW); sim::sb_flush_current();                                              \
    return __real___tsan_atomic##N##_fetch_and(a, v, mo);                                                \
  }                                                                                                      \
  T __real___tsan_atomic##N##_fetch_or(volatile T* a, T v, morder mo);                                   \
  T __wrap___tsan_atomic##N##_fetch_or(volatile T* a, T v, morder mo) {                                  \
    sim::yield(sim::Y_ATOMIC_RMW); sim::sb_flush_current();                                              \
    return __real___tsan_atomic##N##_fetch_or(a, v, mo);                                                 \
  }                                                                                                      \
  T __real___tsan_atomic##N##_fetch_xor(volatile T* a, T v, morder mo);                                  \
  T __wrap___tsan_atomic##N##_fetch_xor(volatile T* a, T v, morder mo) {                                 \
    sim::yield(sim::Y_ATOMIC_RMW); sim::sb_flush_current();                                              \
    return __real___tsan_atomic##N##_fetch_xor(a, v, mo);                                                \
  }                                                                                                      \
  int __real___tsan_atomic##N##_compare_exchange_strong(volatile T* a, T* c, T v, morder mo, morder f);  \
  int __wrap___tsan_atomic##N##_compare_exchange_strong(volatile T* a, T* c, T v, morder mo, morder f) { \
    sim::yield(sim::Y_ATOMIC_RMW); sim::sb_flush_current();                                              \
    return __real___tsan_atomic##N##_compare_exchange_strong(a, c, v, mo, f);                            \
  }                                                                                                      \
  int __real___tsan_atomic##N##_compare_exchange_weak(volatile T* a, T* c, T v, morder mo, morder f);    \
  int __wrap___tsan_atomic##N##_compare_exchange_weak(volatile T* a, T* c, T v, morder mo, morder f) {   \
    sim::yield(sim::Y_ATOMIC_RMW); sim::sb_flush_current();                                              \
    return __real___tsan_atomic##N##_compare_exchange_weak(a, c, v, mo, f);                              \
  }
SIM_ATOMIC_WRAPS(8, unsigned char)
SIM_ATOMIC_WRAPS(16, unsigned short)
SIM_ATOMIC_WRAPS(32, unsigned int)
SIM_ATOMIC_WRAPS(64, unsigned long)
void __real___tsan_atomic_thread_fence(morder mo);
void __wrap___tsan_atomic_thread_fence(morder mo) {
  if (mo == kSeqCst) sim::sb_flush_current();   // mfence; the weaker fences are no-ops on the hardware
  __real___tsan_atomic_thread_fence(mo);
}
#endif

}  // extern "C"

namespace sim {
void sb_flush_current() { sb_flush_prefix(static_cast<size_t>(-1)); }
void sb_flush_prefix(size_t n) {
#if defined(SIM_TSAN)
  if (g == nullptr || !in_task()) return;
  auto& sb = g->tasks[g->cur]->sb;
  if (sb.empty()) return;
  if (n > sb.size()) n = sb.size();
  Task::SbEntry pending[16];
  for (size_t i = 0; i < n; ++i) pending[i] = sb[i];
  sb.drop_front(n);
  for (size_t pi = 0; pi < n; ++pi) {
    const Task::SbEntry& e = pending[pi];
    switch (e.size) {
      case 8: __real___tsan_atomic8_store(static_cast<volatile unsigned char*>(e.addr), static_cast<unsigned char>(e.val), e.mo); break;
      case 16: __real___tsan_atomic16_store(static_cast<volatile unsigned short*>(e.addr), static_cast<unsigned short>(e.val), e.mo); break;
      case 32: __real___tsan_atomic32_store(static_cast<volatile unsigned int*>(e.addr), static_cast<unsigned int>(e.val), e.mo); break;
      default: __real___tsan_atomic64_store(static_cast<volatile unsigned long*>(e.addr), static_cast<unsigned long>(e.val), e.mo); break;
    }
  }
#else
  (void)n;
#endif
}
}  // namespace sim

// std::condition_variable's wait/notify live inside libstdc++.so, where --wrap cannot reach their pthread
// calls.  Interposing the three members from the executable routes them through the wrapped functions above
// (timed waits are header-inline and reach pthread_cond_clockwait directly).
#include <condition_variable>
#include <mutex>
namespace std {
void condition_variable::wait(unique_lock<mutex>& lk) { pthread_cond_wait(native_handle(), lk.mutex()->native_handle()); }
void condition_variable::notify_one() noexcept { pthread_cond_signal(native_handle()); }
void condition_variable::notify_all() noexcept { pthread_cond_broadcast(native_handle()); }
}  // namespace std
