// Small self-contained utilities for the simulator: PRNG, hashing, JSON.
// Nothing here reads a clock, an address or any other ambient state.
#ifndef SIM_UTIL_H_
#define SIM_UTIL_H_

#include <cstdint>
#include <cstdio>
#include <cstdlib>
#include <cstring>
#include <map>
#include <memory>
#include <string>
#include <utility>
#include <vector>

namespace sim {

inline uint64_t mix64(uint64_t x) {  // splitmix64 finaliser
  x += 0x9e3779b97f4a7c15ULL;
  x = (x ^ (x >> 30)) * 0xbf58476d1ce4e5b9ULL;
  x = (x ^ (x >> 27)) * 0x94d049bb133111ebULL;
  return x ^ (x >> 31);
}
inline uint64_t mix64(uint64_t a, uint64_t b) { return mix64(mix64(a) ^ (b + 0x632be59bd9b4e019ULL)); }

inline uint64_t hash_str(const char* p, size_t n, uint64_t h = 0xcbf29ce484222325ULL) {
  for (size_t i = 0; i < n; ++i) { h ^= static_cast<unsigned char>(p[i]); h *= 0x100000001b3ULL; }
  return h;
}
inline uint64_t hash_str(const std::string& s, uint64_t h = 0xcbf29ce484222325ULL) {
  return hash_str(s.data(), s.size(), h);
}

// xoshiro256**
struct Rng {
  uint64_t s[4];
  explicit Rng(uint64_t seed = 1) { reseed(seed); }
  void reseed(uint64_t seed) {
    for (int i = 0; i < 4; ++i) { seed = mix64(seed + i); s[i] = seed; }
  }
  static uint64_t rotl(uint64_t x, int k) { return (x << k) | (x >> (64 - k)); }
  uint64_t next() {
    const uint64_t r = rotl(s[1] * 5, 7) * 9, t = s[1] << 17;
    s[2] ^= s[0]; s[3] ^= s[1]; s[1] ^= s[2]; s[0] ^= s[3]; s[2] ^= t; s[3] = rotl(s[3], 45);
    return r;
  }
  uint64_t below(uint64_t n) { return n ? next() % n : 0; }
  int64_t range(int64_t lo, int64_t hi) {  // inclusive
    return lo + static_cast<int64_t>(below(static_cast<uint64_t>(hi - lo) + 1));
  }
  bool chance(double p) { return (next() >> 11) * (1.0 / 9007199254740992.0) < p; }
  template <class T> const T& pick(const std::vector<T>& v) { return v[below(v.size())]; }
  Rng split(uint64_t tag) { return Rng(mix64(next(), tag)); }
};

// ---------------------------------------------------------------- JSON
struct J {
  enum T { NUL, BOOL, INT, STR, ARR, OBJ } t = NUL;
  bool b = false;
  int64_t i = 0;
  std::string s;
  std::vector<J> a;
  std::vector<std::pair<std::string, J>> o;  // insertion ordered

  J() {}
  J(bool v) : t(BOOL), b(v) {}
  J(int v) : t(INT), i(v) {}
  J(unsigned v) : t(INT), i(v) {}
  J(long v) : t(INT), i(v) {}
  J(long long v) : t(INT), i(v) {}
  J(unsigned long v) : t(INT), i(static_cast<int64_t>(v)) {}
  J(unsigned long long v) : t(INT), i(static_cast<int64_t>(v)) {}
  J(const char* v) : t(STR), s(v) {}
  J(const std::string& v) : t(STR), s(v) {}
  static J arr() { J j; j.t = ARR; return j; }
  static J obj() { J j; j.t = OBJ; return j; }

  J& set(const std::string& k, J v) {
    for (auto& kv : o) if (kv.first == k) { kv.second = std::move(v); return *this; }
    t = OBJ; o.emplace_back(k, std::move(v)); return *this;
  }
  J& push(J v) { t = ARR; a.push_back(std::move(v)); return *this; }
  const J* find(const std::string& k) const {
    for (auto& kv : o) if (kv.first == k) return &kv.second;
    return nullptr;
  }
  bool has(const std::string& k) const { return find(k) != nullptr; }
  const J& at(const std::string& k) const {
    static const J nul; const J* p = find(k); return p ? *p : nul;
  }
  int64_t geti(const std::string& k, int64_t d = 0) const {
    const J* p = find(k); return (p && p->t == INT) ? p->i : (p && p->t == BOOL ? p->b : d);
  }
  std::string gets(const std::string& k, const std::string& d = "") const {
    const J* p = find(k); return (p && p->t == STR) ? p->s : d;
  }
  bool getb(const std::string& k, bool d = false) const {
    const J* p = find(k); return (p && p->t == BOOL) ? p->b : (p && p->t == INT ? p->i != 0 : d);
  }

  static void esc(const std::string& s, std::string* out) {
    out->push_back('"');
    for (unsigned char c : s) {
      switch (c) {
        case '"': *out += "\\\""; break;
        case '\\': *out += "\\\\"; break;
        case '\n': *out += "\\n"; break;
        case '\r': *out += "\\r"; break;
        case '\t': *out += "\\t"; break;
        default:
          if (c < 0x20 || c >= 0x7f) { char b[8]; snprintf(b, sizeof b, "\\u%04x", c); *out += b; }
          else out->push_back(static_cast<char>(c));
      }
    }
    out->push_back('"');
  }
  void dump(std::string* out) const {
    switch (t) {
      case NUL: *out += "null"; break;
      case BOOL: *out += b ? "true" : "false"; break;
      case INT: *out += std::to_string(i); break;
      case STR: esc(s, out); break;
      case ARR: {
        out->push_back('[');
        for (size_t k = 0; k < a.size(); ++k) { if (k) out->push_back(','); a[k].dump(out); }
        out->push_back(']'); break;
      }
      case OBJ: {
        out->push_back('{');
        for (size_t k = 0; k < o.size(); ++k) {
          if (k) out->push_back(',');
          esc(o[k].first, out); out->push_back(':'); o[k].second.dump(out);
        }
        out->push_back('}'); break;
      }
    }
  }
  std::string dump() const { std::string s2; dump(&s2); return s2; }

  // Parser (strings: bytes 0..255 via \u00xx; enough for our own output).
  struct P {
    const char* p; const char* e; bool ok = true;
    void ws() { while (p < e && (*p == ' ' || *p == '\n' || *p == '\t' || *p == '\r')) ++p; }
    J val() {
      ws(); J j;
      if (p >= e) { ok = false; return j; }
      if (*p == '{') {
        ++p; j.t = OBJ; ws();
        if (p < e && *p == '}') { ++p; return j; }
        while (ok) {
          ws(); J k = val(); ws();
          if (k.t != STR || p >= e || *p != ':') { ok = false; break; }
          ++p; J v = val(); j.o.emplace_back(k.s, std::move(v)); ws();
          if (p < e && *p == ',') { ++p; continue; }
          if (p < e && *p == '}') { ++p; break; }
          ok = false;
        }
      } else if (*p == '[') {
        ++p; j.t = ARR; ws();
        if (p < e && *p == ']') { ++p; return j; }
        while (ok) {
          j.a.push_back(val()); ws();
          if (p < e && *p == ',') { ++p; continue; }
          if (p < e && *p == ']') { ++p; break; }
          ok = false;
        }
      } else if (*p == '"') {
        ++p; j.t = STR;
        while (p < e && *p != '"') {
          if (*p == '\\' && p + 1 < e) {
            ++p;
            switch (*p) {
              case 'n': j.s.push_back('\n'); break;
              case 'r': j.s.push_back('\r'); break;
              case 't': j.s.push_back('\t'); break;
              case 'b': j.s.push_back('\b'); break;
              case 'f': j.s.push_back('\f'); break;
              case 'u': {
                if (p + 4 < e) { char h[5] = {p[1], p[2], p[3], p[4], 0}; j.s.push_back(static_cast<char>(strtol(h, nullptr, 16) & 0xff)); p += 4; }
                break;
              }
              default: j.s.push_back(*p);
            }
            ++p;
          } else j.s.push_back(*p++);
        }
        if (p < e) ++p; else ok = false;
      } else if (!strncmp(p, "true", 4)) { p += 4; j.t = BOOL; j.b = true; }
      else if (!strncmp(p, "false", 5)) { p += 5; j.t = BOOL; j.b = false; }
      else if (!strncmp(p, "null", 4)) { p += 4; }
      else {
        char* end = nullptr; j.t = INT; j.i = strtoll(p, &end, 10);
        if (end == p) ok = false;
        // tolerate a fractional part written by other tools
        if (end && end < e && (*end == '.' || *end == 'e' || *end == 'E')) { strtod(p, &end); }
        p = end;
      }
      return j;
    }
  };
  static bool parse(const std::string& text, J* out) {
    P ps{text.data(), text.data() + text.size()};
    *out = ps.val(); ps.ws();
    return ps.ok;
  }
};

inline bool read_file(const std::string& path, std::string* out) {
  FILE* f = fopen(path.c_str(), "rb");  // NB: callers inside wrapped TUs use real_fopen instead
  if (!f) return false;
  char buf[65536]; size_t n; out->clear();
  while ((n = fread(buf, 1, sizeof buf, f)) > 0) out->append(buf, n);
  fclose(f);
  return true;
}

inline std::string hex64(uint64_t v) { char b[20]; snprintf(b, sizeof b, "%016llx", static_cast<unsigned long long>(v)); return b; }

}  // namespace sim
#endif
