#include "cases.h"

namespace sim {

CaseBox gen_case(const std::string& property, const std::string& part, const std::string& tier, uint64_t seed, int64_t idx) {
  CaseBox cb;
  cb.property = property;
  if (property == "C12") { cb.engine = "c12"; cb.c12 = gen_c12(part, tier, seed, idx); return cb; }
  if (property == "C19") { cb.engine = "c19"; cb.c19 = gen_c19(part, tier, seed, idx); return cb; }
  if (property == "C14" && (part == "enum" || part == "random" || part == "order")) { cb.engine = "c14a"; cb.c14a = gen_c14a(part, tier, seed, idx); return cb; }
  cb.engine = "conc";
  cb.conc = gen_conc(property, (part == "hints" || part == "cold" || part == "exit") ? part : tier, seed, idx);
  return cb;
}

Outcome exec_case(CaseBox& cb, bool keep_log, Stats* stats) {
  if (cb.engine == "conc") return exec_conc(cb.conc, keep_log, stats);
  if (cb.engine == "c12") return exec_c12(cb.c12, keep_log, stats);
  if (cb.engine == "c14a") return exec_c14a(cb.c14a, keep_log, stats);
  if (cb.engine == "c19") return exec_c19(cb.c19, keep_log, stats);
  Outcome o;
  Violation v; v.cls = "machinery:unknown-engine"; v.site = cb.engine;
  o.violations.push_back(v);
  return o;
}

J case_to_json(const CaseBox& cb) {
  if (cb.engine == "conc") return conc_to_json(cb.conc);
  if (cb.engine == "c12") return c12_to_json(cb.c12);
  if (cb.engine == "c14a") return c14a_to_json(cb.c14a);
  if (cb.engine == "c19") return c19_to_json(cb.c19);
  return cb.generic;
}

bool case_from_json(const J& j, CaseBox* cb) {
  cb->engine = j.gets("engine");
  cb->property = j.gets("property");
  if (cb->engine == "conc") return conc_from_json(j, &cb->conc);
  if (cb->engine == "c12") return c12_from_json(j, &cb->c12);
  if (cb->engine == "c14a") return c14a_from_json(j, &cb->c14a);
  if (cb->engine == "c19") return c19_from_json(j, &cb->c19);
  cb->generic = j;
  return !cb->engine.empty();
}

void set_recorded_schedule(CaseBox* cb, const Outcome& o) {
  if (cb->engine == "conc") {
    cb->conc.sched.chooser = CH_EXPLICIT;
    cb->conc.sched.schedule = o.schedule;
  } else if (cb->engine == "c14a") {
    if (o.extra.t == J::ARR) {
      cb->c14a.steps.clear();
      for (const J& q : o.extra.a) { Step s; s.q = query_from_json(q); s.check = q.getb("check", true); s.zone = static_cast<int>(q.geti("zone")); cb->c14a.steps.push_back(s); }
      cb->c14a.explicit_steps = true;
    } else if (o.extra.t == J::OBJ) {   // part "order": the single-zone-process fingerprints of the zones involved
      for (auto& kv : o.extra.o) cb->c14a.want[kv.first] = kv.second.s;
    }
  } else if (cb->engine == "c12") {
    cb->c12.explicit_schedule = true;
    cb->c12.schedule = o.schedule;
  }
}

}  // namespace sim

namespace sim {
int64_t part_size(const std::string& property, const std::string& part, const std::string& tier) {
  if (property == "C12") return c12_part_size(part, tier);
  if (property == "C14") return c14a_part_size(part, tier);
  if (property == "C19") return c19_part_size(part, tier);
  return -1;
}
}  // namespace sim
