#include "ops.h"

#include <cinttypes>
#include <limits>

#include "cctz/civil_time.h"

namespace sim {

static const char* kQNames[Q_NKINDS] = {"lookup_tp", "lookup_cs", "next", "prev", "format", "parse", "conv_tp", "conv_cs", "desc", "version", "name"};
const char* qkind_name(int k) { return (k >= 0 && k < Q_NKINDS) ? kQNames[k] : "?"; }
int qkind_from(const std::string& s) { for (int i = 0; i < Q_NKINDS; ++i) if (s == kQNames[i]) return i; return -1; }

const char* const kFormats[] = {
    "%Y-%m-%dT%H:%M:%S %z %Z",
    "%Y-%m-%d %H:%M:%S",
    "%Ez %E*z %s %E4Y %j %u",
    "%a, %d %b %Y %H:%M:%S %z",
    "%E4Y-%m-%d %H:%M:%E3S %Ez",
    "%Y-%m-%dT%H:%M:%E*S%Ez",
    "%Z|%z|%Ez|%E*z|%%|%E5S|%E2f",
    "%s %a %b %e %T %G-W%V-%u %y %C %I%p",
};
const int kNumFormats = sizeof(kFormats) / sizeof(*kFormats);

Civil civil_from_unix(int64_t t) {
  int64_t days = t / 86400, rem = t % 86400;
  if (rem < 0) { rem += 86400; days -= 1; }
  // Howard Hinnant's civil_from_days.
  int64_t z = days + 719468;
  int64_t era = (z >= 0 ? z : z - 146096) / 146097;
  int64_t doe = z - era * 146097;
  int64_t yoe = (doe - doe / 1460 + doe / 36524 - doe / 146096) / 365;
  int64_t y = yoe + era * 400;
  int64_t doy = doe - (365 * yoe + yoe / 4 - yoe / 100);
  int64_t mp = (5 * doy + 2) / 153;
  int64_t d = doy - (153 * mp + 2) / 5 + 1;
  int64_t m = mp < 10 ? mp + 3 : mp - 9;
  Civil c;
  c.y = y + (m <= 2);
  c.m = static_cast<int>(m); c.d = static_cast<int>(d);
  c.hh = static_cast<int>(rem / 3600); c.mm = static_cast<int>((rem / 60) % 60); c.ss = static_cast<int>(rem % 60);
  return c;
}

static void app_cs(std::string* out, const cctz::civil_second& cs) {
  char b[96];
  snprintf(b, sizeof b, "%" PRId64 "-%02d-%02d %02d:%02d:%02d", static_cast<int64_t>(cs.year()), cs.month(), cs.day(), cs.hour(), cs.minute(), cs.second());
  *out += b;
}
static int64_t secs(const cctz::time_point<cctz::seconds>& tp) { return tp.time_since_epoch().count(); }

std::string run_query(const cctz::time_zone& tz, const Query& q) {
  std::string out;
  char b[160];
  switch (q.k) {
    case Q_LOOKUP_TP: {
      cctz::time_zone::absolute_lookup al = tz.lookup(tp_of(q.a));
      app_cs(&out, al.cs);
      snprintf(b, sizeof b, " off=%d dst=%d abbr=", al.offset, al.is_dst ? 1 : 0);
      out += b;
      out += al.abbr ? al.abbr : "(null)";
      break;
    }
    case Q_CONV_TP: {
      app_cs(&out, cctz::convert(tp_of(q.a), tz));
      break;
    }
    case Q_LOOKUP_CS: {
      Civil c = unpack_civil(q.a, q.b);
      cctz::time_zone::civil_lookup cl = tz.lookup(cctz::civil_second(c.y, c.m, c.d, c.hh, c.mm, c.ss));
      snprintf(b, sizeof b, "kind=%d pre=%" PRId64 " trans=%" PRId64 " post=%" PRId64, static_cast<int>(cl.kind), secs(cl.pre), secs(cl.trans), secs(cl.post));
      out = b;
      break;
    }
    case Q_CONV_CS: {
      Civil c = unpack_civil(q.a, q.b);
      snprintf(b, sizeof b, "%" PRId64, secs(cctz::convert(cctz::civil_second(c.y, c.m, c.d, c.hh, c.mm, c.ss), tz)));
      out = b;
      break;
    }
    case Q_NEXT:
    case Q_PREV: {
      cctz::time_zone::civil_transition tr;
      bool ok = (q.k == Q_NEXT) ? tz.next_transition(tp_of(q.a), &tr) : tz.prev_transition(tp_of(q.a), &tr);
      out = ok ? "1 " : "0";
      if (ok) { app_cs(&out, tr.from); out += " -> "; app_cs(&out, tr.to); }
      break;
    }
    case Q_FORMAT: {
      const std::string f = q.fs.empty() ? std::string(kFormats[q.fmt % kNumFormats]) : q.fs;
      if (q.b != 0 && q.a > -9000000000LL && q.a < 9000000000LL) {
        // a time point with a sub-second part goes through the time_point<D> templates and the femtosecond path
        auto tp = std::chrono::time_point<std::chrono::system_clock, std::chrono::nanoseconds>(std::chrono::nanoseconds(q.a * 1000000000LL + q.b % 1000000000LL));
        out = cctz::format(f, tp, tz);
      } else out = cctz::format(f, tp_of(q.a), tz);
      break;
    }
    case Q_PARSE: {
      cctz::time_point<cctz::seconds> tp;
      const std::string f = q.fs.empty() ? std::string(kFormats[q.fmt % kNumFormats]) : q.fs;
      if (q.b != 0) {
        // the entry point underneath: seconds, femtoseconds and the error text
        cctz::detail::femtoseconds fs(0);
        std::string err = "(untouched)";
        bool ok = cctz::detail::parse(f, q.s, tz, &tp, &fs, &err);
        snprintf(b, sizeof b, "%d %" PRId64 " fs=%" PRId64 " err=", ok ? 1 : 0, ok ? secs(tp) : 0, ok ? static_cast<int64_t>(fs.count()) : 0);
        out = b + (ok ? std::string() : err);
        break;
      }
      bool ok = cctz::parse(f, q.s, tz, &tp);
      snprintf(b, sizeof b, "%d %" PRId64, ok ? 1 : 0, ok ? secs(tp) : 0);
      out = b;
      break;
    }
    case Q_DESC: out = tz.description(); break;
    case Q_VERSION: out = tz.version(); break;
    case Q_NAME: out = tz.name(); break;
    default: break;
  }
  return out;
}

J query_to_json(const Query& q) {
  J j = J::obj();
  j.set("q", qkind_name(q.k));
  switch (q.k) {
    case Q_LOOKUP_TP: case Q_CONV_TP: case Q_NEXT: case Q_PREV: j.set("t", q.a); break;
    case Q_LOOKUP_CS: case Q_CONV_CS: j.set("y", q.a); j.set("mdhms", q.b); break;
    case Q_FORMAT: j.set("t", q.a); j.set("fmt", q.fmt); if (!q.fs.empty()) j.set("fstr", q.fs); if (q.b) j.set("sub", q.b); break;
    case Q_PARSE: j.set("in", q.s); j.set("fmt", q.fmt); if (!q.fs.empty()) j.set("fstr", q.fs); if (q.b) j.set("sub", q.b); break;
    default: break;
  }
  return j;
}
Query query_from_json(const J& j) {
  Query q;
  int k = qkind_from(j.gets("q"));
  q.k = static_cast<QKind>(k < 0 ? 0 : k);
  if (j.has("t")) q.a = j.geti("t");
  if (j.has("y")) { q.a = j.geti("y"); q.b = j.geti("mdhms"); }
  q.fmt = static_cast<int>(j.geti("fmt"));
  q.s = j.gets("in");
  q.fs = j.gets("fstr");
  if (j.has("sub")) q.b = j.geti("sub");
  return q;
}
std::string query_text(const Query& q) {
  char b[200];
  switch (q.k) {
    case Q_LOOKUP_CS: case Q_CONV_CS: {
      Civil c = unpack_civil(q.a, q.b);
      snprintf(b, sizeof b, "%s(%" PRId64 "-%02d-%02d %02d:%02d:%02d)", qkind_name(q.k), c.y, c.m, c.d, c.hh, c.mm, c.ss);
      return b;
    }
    case Q_FORMAT:
      if (!q.fs.empty()) return "format('" + q.fs + "'," + std::to_string(q.a) + (q.b ? "+" + std::to_string(q.b) + "ns" : std::string()) + ")";
      snprintf(b, sizeof b, "format(#%d,%" PRId64 "%s)", q.fmt, q.a, q.b ? "+ns" : ""); return b;
    case Q_PARSE: return std::string("parse(") + (q.fs.empty() ? "#" + std::to_string(q.fmt) : "'" + q.fs + "'") + ",'" + q.s + "')";
    case Q_DESC: case Q_VERSION: case Q_NAME: return std::string(qkind_name(q.k)) + "()";
    default: snprintf(b, sizeof b, "%s(%" PRId64 ")", qkind_name(q.k), q.a); return b;
  }
}

ZoneShape shape_of(const std::string& bytes) {
  ZoneShape sh;
  TzData d; TzLayout L;
  if (!parse_tzif(bytes, &d, &L)) return sh;
  int32_t prev = d.types.empty() ? 0 : d.types[0].utoff;
  for (size_t i = 0; i < d.times.size(); ++i) {
    uint8_t ti = d.idx[i];
    int32_t off = ti < d.types.size() ? d.types[ti].utoff : 0;
    sh.times.push_back(d.times[i]);
    sh.offs_before.push_back(prev);
    sh.offs_after.push_back(off);
    prev = off;
  }
  sh.has_dst_footer = d.footer.find(',') != std::string::npos;
  sh.last = d.times.empty() ? 0 : d.times.back();
  return sh;
}

static Query civil_query(QKind k, int64_t local) {
  Civil c = civil_from_unix(local);
  Query q; q.k = k; q.a = c.y; q.b = pack_civil(c.m, c.d, c.hh, c.mm, c.ss);
  return q;
}

std::string gen_format(Rng* r) {
  static const char* const plain[] = {"%Y", "%m", "%d", "%H", "%M", "%S", "%z", "%Z", "%s", "%a", "%A", "%b", "%B", "%c", "%C", "%D", "%e", "%F", "%g", "%G",
                                      "%h", "%I", "%j", "%k", "%l", "%n", "%p", "%R", "%t", "%T", "%u", "%U", "%V", "%w", "%W", "%x", "%X", "%y", "%%", "%r", "%P"};
  static const char* const ext[] = {"%Ez", "%E*z", "%E#S", "%E*S", "%E0S", "%E3S", "%E9S", "%E15S", "%E#f", "%E*f", "%E1f", "%E6f", "%E4Y", "%ET", "%Ec", "%EC", "%Ex", "%EX", "%Ey", "%EY",
                                    "%Od", "%Oe", "%OH", "%OI", "%Om", "%OM", "%OS", "%Ou", "%OU", "%OV", "%Ow", "%OW", "%Oy", "%E", "%E*", "%Ez%Ez", "%:z", "%::z", "%:::z"};
  static const char* const lit[] = {" ", "-", ":", "T", "/", ", ", "Z", "at ", "\xc3\xa9", "x%", "%", "[", "]"};
  std::string f;
  int n = static_cast<int>(r->pick(std::vector<int>{1, 2, 3, 5, 8, 12, 20, 40}));
  bool long_run = r->chance(0.2);   // long runs of specifiers that are handed to strftime in one piece
  for (int i = 0; i < n; ++i) {
    uint64_t p = r->below(100);
    if (long_run || p < 45) {
      std::string t = plain[r->below(sizeof plain / sizeof *plain)];
      if (r->chance(0.12) && t != "%%") {   // glibc flags and field widths: %_5d %-H %010Y %^a %99c
        std::string mod;
        if (r->chance(0.6)) mod += r->pick(std::vector<std::string>{"_", "-", "0", "^", "#"});
        if (r->chance(0.7)) mod += std::to_string(r->pick(std::vector<int>{1, 2, 5, 10, 33, 99, 200, 1000}));
        t = "%" + mod + t.substr(1);
      }
      f += t;
      if (long_run && r->chance(0.5)) f += r->pick(std::vector<std::string>{" ", ", ", "-"});
    } else if (p < 75) f += ext[r->below(sizeof ext / sizeof *ext)];
    else f += lit[r->below(sizeof lit / sizeof *lit)];
  }
  return f;
}

// Parse formats whose input the generator can render itself from the civil fields.
static void gen_parse(Rng* r, Query* q, int64_t t, int32_t off) {
  int64_t local = (t > (1LL << 55) || t < -(1LL << 55)) ? 0 : t + off;
  Civil c = civil_from_unix(local);
  static const char* const wd[] = {"Thu", "Fri", "Sat", "Sun", "Mon", "Tue", "Wed"};
  static const char* const mon[] = {"Jan", "Feb", "Mar", "Apr", "May", "Jun", "Jul", "Aug", "Sep", "Oct", "Nov", "Dec"};
  int64_t days = local / 86400 - (local % 86400 < 0 ? 1 : 0);
  const char* w = wd[((days % 7) + 7) % 7];
  int ao = off < 0 ? -off : off;
  char b[200];
  q->k = Q_PARSE; q->fmt = 1;
  switch (r->below(10)) {
    case 0: case 1: case 2:
      snprintf(b, sizeof b, "%" PRId64 "-%02d-%02d %02d:%02d:%02d", c.y, c.m, c.d, c.hh, c.mm, c.ss); break;
    case 3:
      q->fs = "%Y-%m-%dT%H:%M:%S%Ez";
      snprintf(b, sizeof b, "%" PRId64 "-%02d-%02dT%02d:%02d:%02d%c%02d:%02d", c.y, c.m, c.d, c.hh, c.mm, c.ss, off < 0 ? '-' : '+', ao / 3600, (ao / 60) % 60); break;
    case 4:
      q->fs = "%d/%m/%Y %H.%M";
      snprintf(b, sizeof b, "%02d/%02d/%" PRId64 " %02d.%02d", c.d, c.m, c.y, c.hh, c.mm); break;
    case 5:
      q->fs = "%s";
      snprintf(b, sizeof b, "%" PRId64, t); break;
    case 6:
      q->fs = "%Y%m%d %H%M%E*S";
      snprintf(b, sizeof b, "%" PRId64 "%02d%02d %02d%02d%02d.%d", c.y, c.m, c.d, c.hh, c.mm, c.ss, static_cast<int>(r->below(1000))); break;
    case 7:
      q->fs = "%a, %d %b %Y %H:%M:%S %z";
      snprintf(b, sizeof b, "%s, %02d %s %" PRId64 " %02d:%02d:%02d %c%02d%02d", w, c.d, mon[c.m - 1], c.y, c.hh, c.mm, c.ss, off < 0 ? '-' : '+', ao / 3600, (ao / 60) % 60); break;
    case 8:
      q->fs = "%m/%d/%y %I:%M:%S %p";
      snprintf(b, sizeof b, "%02d/%02d/%02d %02d:%02d:%02d %s", c.m, c.d, static_cast<int>(((c.y % 100) + 100) % 100), c.hh % 12 == 0 ? 12 : c.hh % 12, c.mm, c.ss, c.hh < 12 ? "AM" : "PM"); break;
    default:
      q->fs = "%E4Y-%m-%d %H:%M:%E3S %Z";
      snprintf(b, sizeof b, "%04" PRId64 "-%02d-%02d %02d:%02d:%02d.250 UTC", c.y, c.m, c.d, c.hh, c.mm, c.ss); break;
  }
  q->s = b;
  if (r->chance(0.1)) q->s += "x";  // rejected input
  if (r->chance(0.03)) q->s = " " + q->s;
}

Query gen_query(Rng* r, const ZoneShape& sh, bool allow_meta) {
  // Choose an instant of interest.
  int64_t t;
  int32_t off = 0;
  uint64_t pick = r->below(100);
  if (pick < 60 && !sh.times.empty()) {
    size_t i = r->below(sh.times.size());
    t = sh.times[i];
    off = r->chance(0.5) ? sh.offs_before[i] : sh.offs_after[i];
    switch (r->below(6)) {
      case 0: t -= 1; break;
      case 1: break;
      case 2: t += 1; break;
      case 3: t += r->range(-7200, 7200); break;
      case 4: t += r->range(-86400 * 40, 86400 * 40); break;
      default: if (i + 1 < sh.times.size()) t += (sh.times[i + 1] - t) / 2; break;
    }
  } else if (pick < 80) {
    // After the stored table: the region served by the footer rules (if any).
    t = sh.last + r->range(0, 86400LL * 366 * 450);
    if (!sh.offs_after.empty()) off = sh.offs_after.back();
    if (r->chance(0.1)) t = sh.last + r->range(0, 86400LL * 366 * 3000);
  } else if (pick < 92) {
    static const int64_t special[] = {0, 1, -1, 2147483647LL, 2147483648LL, -2147483648LL, 1420070400LL, 4102444800LL,
                                      -(1LL << 59), -(1LL << 59) - 1, -(1LL << 59) + 1, 1LL << 59};
    t = special[r->below(sizeof special / sizeof *special)];
  } else if (pick < 97) {
    t = r->range(-4000000000LL, 8000000000LL);
  } else {
    static const int64_t ends[] = {INT64_MIN, INT64_MIN + 1, INT64_MAX, INT64_MAX - 1, INT64_MIN / 2, INT64_MAX / 2};
    t = ends[r->below(6)];
  }
  Query q;
  uint64_t kind = r->below(allow_meta ? 104 : 100);
  if (kind < 30) { q.k = Q_LOOKUP_TP; q.a = t; }
  else if (kind < 55) {
    int64_t local = (t > INT64_MAX - 200000 || t < INT64_MIN + 200000) ? t : t + off + r->range(-3, 3) * (r->chance(0.3) ? 1800 : 1);
    q = civil_query(Q_LOOKUP_CS, local);
    if (r->chance(0.03)) { q.a = r->chance(0.5) ? 300000000000LL : -300000000000LL; }
  }
  else if (kind < 63) { q.k = Q_NEXT; q.a = t; }
  else if (kind < 71) { q.k = Q_PREV; q.a = t; }
  else if (kind < 80) {
    q.k = Q_FORMAT; q.a = t; q.fmt = static_cast<int>(r->below(static_cast<uint64_t>(kNumFormats)));
    if (r->chance(0.4)) q.fs = gen_format(r);
    if (r->chance(0.25)) q.b = static_cast<int64_t>(r->pick(std::vector<int64_t>{1, 999999999, 500000000, 123456789, 1000, 999999}));
  }
  else if (kind < 88) { gen_parse(r, &q, t, off); q.b = r->chance(0.3) ? 1 : 0; }
  else if (kind < 94) { q.k = Q_CONV_TP; q.a = t; }
  else if (kind < 100) {
    int64_t local = (t > INT64_MAX - 200000 || t < INT64_MIN + 200000) ? t : t + off;
    q = civil_query(Q_CONV_CS, local);
  }
  else if (kind < 102) q.k = Q_NAME;
  else if (kind < 103) q.k = Q_DESC;
  else q.k = Q_VERSION;
  return q;
}

}  // namespace sim
