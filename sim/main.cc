// simzone: worker / replay / enumerate front end.
#include <unistd.h>

#include <algorithm>
#include <clocale>
#include <cstdio>
#include <cstdlib>
#include <cstring>
#include <map>
#include <set>
#include <string>
#include <vector>

#include "cases.h"
#include "seams.h"

using namespace sim;

namespace {

std::map<std::string, std::string> parse_args(int argc, char** argv, int from, std::vector<std::string>* pos) {
  std::map<std::string, std::string> a;
  for (int i = from; i < argc; ++i) {
    std::string s = argv[i];
    if (s.compare(0, 2, "--") == 0) {
      std::string k = s.substr(2);
      if (i + 1 < argc && strncmp(argv[i + 1], "--", 2) != 0) a[k] = argv[++i]; else a[k] = "1";
    } else pos->push_back(s);
  }
  return a;
}

void emit(const J& j) {
  std::string s = j.dump();
  s.push_back('\n');
  fwrite(s.data(), 1, s.size(), stdout);
  fflush(stdout);
}

J viol_json(const Violation& v) {
  J j = J::obj();
  j.set("class", v.cls); j.set("site", v.site); j.set("detail", v.detail);
  J tg = J::arr();
  for (const std::string& t : v.tags) tg.push(t);
  j.set("tags", tg);
  return j;
}

int g_watchdog_scale = 1;   // VERIF_WATCHDOG_SCALE: the memcheck stage runs 30-50x slower

void common_init(const char* prop) {
  if (const char* sc = getenv("VERIF_WATCHDOG_SCALE")) { int v = atoi(sc); if (v > 1) g_watchdog_scale = v; }
  setenv("TZ", "UTC", 1);
  setenv("LC_ALL", "C", 1);
  setlocale(LC_ALL, "C");
  tzset();
  static std::string p = prop;
  rt.property = p.c_str();
#if defined(SIM_ASAN)
  rt.build = "asan";
#elif defined(SIM_TSAN)
  rt.build = "tsan";
#elif defined(SIM_GPAT)
  rt.build = "gpat";
#else
  rt.build = "gzero";
#endif
  install_crash_handlers();
}

int cmd_worker(const std::map<std::string, std::string>& a) {
  auto get = [&](const char* k, const char* d) { auto it = a.find(k); return it == a.end() ? std::string(d) : it->second; };
  std::string prop = get("prop", "C13"), tier = get("tier", "quick"), part = get("part", "");
  uint64_t seed = strtoull(get("seed", "1").c_str(), nullptr, 10);
  int64_t start = strtoll(get("start", "0").c_str(), nullptr, 10), count = strtoll(get("count", "100").c_str(), nullptr, 10);
  int64_t hash_mod = strtoll(get("hash-mod", "0").c_str(), nullptr, 10);
  bool only_hash = a.count("only-hash") != 0;
  int64_t key_mod = strtoll(get("key-mod", "1").c_str(), nullptr, 10);
  int want_samples = atoi(get("samples", "0").c_str());
  bool digests = a.count("digests") != 0;
  g_cold_start = a.count("cold") != 0;
  if (a.count("refs")) {   // C14 part "order": fingerprints of zones taken in processes of their own
    std::string text; J rj;
    if (read_file(a.at("refs"), &text) && J::parse(text, &rj)) for (auto& kv : rj.o) g_c14_refs[kv.first] = kv.second.s;
  }
  common_init(prop.c_str());
  rt.seed = seed;
  Stats stats;
  J hashes = J::arr(), keys = J::arr(), digs = J::arr();
  int64_t runs = 0, nontrivial = 0, violating = 0;
  int samples = 0;
  for (int64_t idx = start; idx < start + count; ++idx) {
    if (only_hash && (hash_mod <= 0 || idx % hash_mod != 0)) continue;
    begin_run(idx);
    CaseBox cb = gen_case(prop, part, part.compare(0, 4, "tmpl") == 0 ? part : tier, seed, idx);
    arm_watchdog((prop == "C12" ? 6 : 20) * g_watchdog_scale, 120 * g_watchdog_scale);
    Outcome o = exec_case(cb, false, &stats);
    disarm_watchdog();
    ++runs;
    stats.add("steps_total", o.steps);
    if (o.nontrivial) { ++nontrivial; if (key_mod <= 1 || o.distinct_key % static_cast<uint64_t>(key_mod) == 0) keys.push(hex64(o.distinct_key)); }
    if (hash_mod > 0 && idx % hash_mod == 0) { J h = J::arr(); h.push(idx); h.push(hex64(o.log_hash)); hashes.push(h); }
    if (digests) { J d = J::arr(); d.push(idx); d.push(hex64(o.digest)); digs.push(d); }
    if (!o.violations.empty()) {
      ++violating;
      // Determinism gate, part 1: the same case again in this process must behave identically.
      Outcome o2;
      if (o.poisoned || g_cold_start) {
        // (cold-start runs cannot be repeated in-process: the driver repeats them in two fresh processes)
        // Abandoned fibers may still hold library locks: nothing more can be executed in this process.
        o2 = o;
      } else {
        begin_run(idx);
        CaseBox again = cb;
        arm_watchdog((prop == "C12" ? 6 : 20) * g_watchdog_scale, 120 * g_watchdog_scale);
        o2 = exec_case(again, false, nullptr);
        disarm_watchdog();
      }
      J j = J::obj();
      j.set("run", idx);
      J vs = J::arr();
      for (const Violation& v : o.violations) vs.push(viol_json(v));
      j.set("violations", vs);
      j.set("log_hash", hex64(o.log_hash));
      j.set("rerun_log_hash", hex64(o2.log_hash));
      j.set("rerun_same", o.log_hash == o2.log_hash && o2.violations.size() == o.violations.size());
      set_recorded_schedule(&cb, o);
      { J cj = case_to_json(cb); if (a.count("weak-hash")) cj.set("weak_hash", true); j.set("case", cj); }   // (a replay must run with the same std::hash)
      emit(j);
      if (o2.poisoned) o.poisoned = true;
    } else if (samples < want_samples && o.nontrivial) {
      ++samples;
      J j = J::obj();
      set_recorded_schedule(&cb, o);
      j.set("sample", case_to_json(cb));
      j.set("run", idx);
      emit(j);
    }
    if (o.poisoned) {
      J j = J::obj(); j.set("poisoned_at", idx); emit(j);
      count = idx + 1 - start;  // stop here; the parent restarts after this index
      break;
    }
  }
  J j = J::obj();
  J st = J::obj();
  for (auto& kv : stats.c) st.set(kv.first, kv.second);
  j.set("stats", st);
  j.set("runs", runs); j.set("nontrivial", nontrivial); j.set("violating", violating);
  j.set("start", start); j.set("count", count);
  j.set("keys", keys);
  if (hash_mod > 0) j.set("hashes", hashes);
  if (digests) j.set("digests", digs);
  j.set("done", true);
  emit(j);
  return 0;
}

int cmd_replay(const std::string& file, const std::map<std::string, std::string>& a) {
  std::string text;
  if (!read_file(file, &text)) { fprintf(stderr, "cannot read %s\n", file.c_str()); return 2; }
  J j;
  if (!J::parse(text, &j)) { fprintf(stderr, "bad JSON in %s\n", file.c_str()); return 2; }
  const J& cj = j.has("case") ? j.at("case") : j;
  CaseBox cb;
  if (!case_from_json(cj, &cb)) { fprintf(stderr, "bad case in %s\n", file.c_str()); return 2; }
  common_init(cb.property.c_str());
  g_cold_start = cj.gets("mode") == "cold";
  begin_run(j.geti("run_index", j.geti("run", -1)));
  bool want_log = a.count("log") != 0;
  int reps = (a.count("twice") && !g_cold_start) ? 2 : 1;
  Outcome o;
  uint64_t h0 = 0;
  for (int r = 0; r < reps; ++r) {
    arm_watchdog(30 * g_watchdog_scale, 600 * g_watchdog_scale);
    CaseBox c2 = cb;
    o = exec_case(c2, want_log, nullptr);
    disarm_watchdog();
    if (r == 0) h0 = o.log_hash;
    if (o.poisoned) break;   // abandoned fibers may hold library locks: never execute again in this process
  }
  J out = J::obj();
  J vs = J::arr();
  for (const Violation& v : o.violations) vs.push(viol_json(v));
  out.set("violations", vs);
  out.set("log_hash", hex64(o.log_hash));
  out.set("digest", hex64(o.digest));
  out.set("twice_same", h0 == o.log_hash);
  if (want_log) { J l = J::arr(); for (auto& s : o.log) l.push(s); out.set("log", l); }
  out.set("replayed", true);
  emit(out);
  return o.violations.empty() ? 0 : 1;
}

int cmd_gen(const std::map<std::string, std::string>& a) {
  auto get = [&](const char* k, const char* d) { auto it = a.find(k); return it == a.end() ? std::string(d) : it->second; };
  common_init(get("prop", "C13").c_str());
  CaseBox cb = gen_case(get("prop", "C13"), get("part", ""), get("tier", "quick"), strtoull(get("seed", "1").c_str(), nullptr, 10), strtoll(get("index", "0").c_str(), nullptr, 10));
  emit(case_to_json(cb));
  return 0;
}

// Exhaustive enumeration of all schedules of a small template (a denominator
// for the seeded search, and an exhaustive sweep in its own right).
int cmd_enumerate(const std::map<std::string, std::string>& a) {
  auto get = [&](const char* k, const char* d) { auto it = a.find(k); return it == a.end() ? std::string(d) : it->second; };
  std::string prop = get("prop", "C13");
  int k = atoi(get("k", "3").c_str()), names = atoi(get("names", "1").c_str());
  bool fy = a.count("fy") != 0;
  int64_t limit = strtoll(get("limit", "100000000").c_str(), nullptr, 10);
  common_init(prop.c_str());
  CaseBox cb;
  cb.engine = "conc"; cb.property = prop;
  cb.conc = template_conc(prop, k, names, fy);
  cb.conc.sched.explicit_default_first = true;
  std::vector<int> prefix;
  for (int t = 0; t < k; ++t) prefix.push_back(t);  // canonical start steps (independent of everything else)
  std::string pfx = get("prefix", "");
  for (size_t p = 0; p < pfx.size();) { size_t e = pfx.find(',', p); if (e == std::string::npos) e = pfx.size(); prefix.push_back(atoi(pfx.substr(p, e - p).c_str())); p = e + 1; }
  const size_t forced = prefix.size();
  int64_t count = 0, violating = 0;
  const bool symmetry = a.count("symmetry") != 0;
  const size_t max_depth = a.count("max-depth") ? static_cast<size_t>(atoi(get("max-depth", "0").c_str())) : 0;  // >0: only branch in the first D free steps and list the prefixes
  J prefixes = J::arr();
  J first_masks, first_schedule;
  std::set<uint64_t> traces, signatures;
  Stats stats;
  J first_viol;
  bool have_viol = false;
  for (;;) {
    cb.conc.sched.schedule = prefix;
    begin_run(count);
    arm_watchdog(20, 300);
    Outcome o = exec_case(cb, false, &stats);
    disarm_watchdog();
    ++count;
    traces.insert(o.sig_hash);
    if (!o.violations.empty()) {
      ++violating;
      if (!have_viol) {
        have_viol = true;
        first_viol = J::obj();
        J vs = J::arr();
        for (const Violation& v : o.violations) vs.push(viol_json(v));
        first_viol.set("violations", vs);
        first_viol.set("run", count - 1);
        set_recorded_schedule(&cb, o);
        first_viol.set("case", case_to_json(cb));
      }
    }
    if (o.poisoned || count >= limit) break;
    // Next schedule in lexicographic order.  With --symmetry (all tasks run the same script) a task that
    // has not moved beyond its first step is interchangeable with any other such task, so only the
    // lowest-numbered fresh task may be chosen: this removes the k! permutations of identical tasks.
    const std::vector<int>& S = o.schedule;
    if (count == 1) {
      J fm = J::arr();
      for (size_t i = 0; i < o.runnable_mask.size() && i < forced + 12; ++i) fm.push(static_cast<int64_t>(o.runnable_mask[i]));
      first_masks = fm;
      first_schedule = J::arr();
      for (size_t i = 0; i < S.size() && i < forced + 12; ++i) first_schedule.push(S[i]);
    }
    bool advanced = false;
    std::vector<int> seen(64, 0);
    std::vector<uint64_t> fresh_at(S.size(), 0);   // tasks that have made only their START step before step i
    for (size_t i = 0; i < S.size(); ++i) {
      uint64_t f = 0;
      for (int id = 0; id < k; ++id) if (seen[static_cast<size_t>(id)] == 1) f |= (1ULL << id);
      fresh_at[i] = f;
      seen[static_cast<size_t>(S[i])]++;
    }
    if (max_depth) {
      J pj = J::arr();
      for (size_t i = static_cast<size_t>(k); i < S.size() && i < forced + max_depth; ++i) pj.push(S[i]);
      prefixes.push(pj);
    }
    for (size_t i = (max_depth ? std::min(S.size(), forced + max_depth) : S.size()); i-- > forced;) {
      uint64_t m = o.runnable_mask[i];
      int next = -1;
      for (int id = S[i] + 1; id < 64; ++id) {
        if (!(m & (1ULL << id))) continue;
        if (symmetry && (fresh_at[i] & (1ULL << id))) {
          // a fresh task is allowed only if no lower-numbered fresh task is runnable
          uint64_t lower = fresh_at[i] & m & ((1ULL << id) - 1);
          if (lower) continue;
        }
        next = id; break;
      }
      if (next >= 0) { prefix.assign(S.begin(), S.begin() + static_cast<long>(i)); prefix.push_back(next); advanced = true; break; }
    }
    if (!advanced) break;
  }
  J j = J::obj();
  j.set("enumerated", count); j.set("violating", violating); j.set("distinct_traces", static_cast<int64_t>(traces.size()));
  J tr = J::arr();
  if (traces.size() <= 200000) for (uint64_t t : traces) tr.push(hex64(t));
  j.set("traces", tr);
  j.set("exhausted", count < limit);
  if (max_depth) j.set("prefixes", prefixes);
  j.set("first_masks", first_masks); j.set("first_schedule", first_schedule); j.set("forced", static_cast<int64_t>(forced));
  if (have_viol) j.set("first_violation", first_viol);
  J st = J::obj();
  for (auto& kv : stats.c) st.set(kv.first, kv.second);
  j.set("stats", st);
  j.set("done", true);
  emit(j);
  return 0;
}

}  // namespace

int main(int argc, char** argv) {
  if (argc < 2) { fprintf(stderr, "usage: simzone worker|replay|gen|enumerate ...\n"); return 2; }
  std::string cmd = argv[1];
  std::vector<std::string> pos;
  std::map<std::string, std::string> a = parse_args(argc, argv, 2, &pos);
  if (cmd == "worker") return cmd_worker(a);
  if (cmd == "replay" && !pos.empty()) return cmd_replay(pos[0], a);
  if (cmd == "gen") return cmd_gen(a);
  if (cmd == "enumerate") return cmd_enumerate(a);
  if (cmd == "dump" && !pos.empty()) {
    // Write the (faulted) image of a C12 case, or of a bare base recipe, to a file: simzone dump <case.json|base> <out>
    std::string text, bytes;
    J j;
    if (read_file(pos[0], &text) && J::parse(text, &j)) {
      const J& cj = j.has("case") ? j.at("case") : j;
      C12Case c; c12_from_json(cj, &c);
      bytes = apply_faults(base_bytes(c.base), c.faults, nullptr);
    } else bytes = base_bytes(pos[0]);
    FILE* f = fopen(pos.size() > 1 ? pos[1].c_str() : "/dev/stdout", "wb");
    fwrite(bytes.data(), 1, bytes.size(), f); fclose(f);
    return 0;
  }
  if (cmd == "dump-bases") {   // every base recipe the C14 "order" part can draw
    for (const std::string& n : shipped_names()) printf("shipped:%s\n", n.c_str());
    for (int i = 0; i < 200; ++i) printf("synth:%d\n", i);
    return 0;
  }
  if (cmd == "fingerprint") {
    // simzone fingerprint --base <recipe>: load that one zone in this otherwise untouched process and describe it
    common_init("C14");
    J j = J::obj();
    j.set("base", a.count("base") ? a.at("base") : std::string());
    j.set("fingerprint", fingerprint_of_base_alone(a.count("base") ? a.at("base") : std::string()));
    emit(j);
    return 0;
  }
  if (cmd == "count") {
    auto get = [&](const char* k, const char* d) { auto it = a.find(k); return it == a.end() ? std::string(d) : it->second; };
    printf("%lld\n", static_cast<long long>(part_size(get("prop", ""), get("part", ""), get("tier", "quick"))));
    return 0;
  }
  fprintf(stderr, "unknown command\n");
  return 2;
}
