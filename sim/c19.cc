#include "c19.h"

#include <errno.h>

#include <algorithm>
#include <functional>

#include "cctz/time_zone.h"
#include "ops.h"
#include "premain.h"
#include "seams.h"
#include "simsched.h"
#include "tzif.h"

namespace sim {

// ------------------------------------------------------------------ JSON
J c19_to_json(const C19Case& c) {
  J j = J::obj();
  j.set("engine", "c19"); j.set("property", "C19"); j.set("part", c.part);
  J e = J::obj();
  e.set("TZDIR", c.tzdir_set ? J(c.tzdir) : J());
  e.set("TZ", c.tz_set ? J(c.tz) : J());
  e.set("LOCALTIME", c.lt_set ? J(c.lt) : J());
  j.set("env", e);
  J fs = J::arr();
  for (const FsSpec& f : c.fs) { J jf = J::obj(); jf.set("path", f.path); jf.set("kind", f.kind); jf.set("content", f.content); jf.set("marker", f.marker); fs.push(jf); }
  j.set("fs", fs);
  J ops = J::arr();
  for (const C19Op& o : c.ops) { J jo = J::obj(); jo.set("op", o.op); if (o.op == "load" || o.op == "setenv" || o.op == "unsetenv") jo.set("name", o.name); ops.push(jo); }
  j.set("ops", ops);
  J fl = J::arr();
  for (const C19Fault& f : c.faults) { J jf = J::obj(); jf.set("k", f.k); jf.set("open_index", f.open_index); jf.set("at", f.at); jf.set("err", f.err); jf.set("transient", f.transient); fl.push(jf); }
  j.set("faults", fl);
  j.set("chunk", c.chunk); j.set("chunk2", c.chunk2);
  if (c.premain_world >= 0) j.set("premain_world", c.premain_world);
  if (c.secure) j.set("secure", true);
  J sl = J::arr(); sl.push("ops"); sl.push("faults");
  j.set("shrink_lists", sl);
  return j;
}

bool c19_from_json(const J& j, C19Case* c) {
  c->part = j.gets("part");
  const J& e = j.at("env");
  c->tzdir_set = e.at("TZDIR").t == J::STR; c->tzdir = e.gets("TZDIR");
  c->tz_set = e.at("TZ").t == J::STR; c->tz = e.gets("TZ");
  c->lt_set = e.at("LOCALTIME").t == J::STR; c->lt = e.gets("LOCALTIME");
  c->fs.clear(); c->ops.clear(); c->faults.clear();
  for (const J& jf : j.at("fs").a) { FsSpec f; f.path = jf.gets("path"); f.kind = jf.gets("kind", "reg"); f.content = jf.gets("content"); f.marker = static_cast<int>(jf.geti("marker")); c->fs.push_back(f); }
  for (const J& jo : j.at("ops").a) { C19Op o; o.op = jo.gets("op"); o.name = jo.gets("name"); c->ops.push_back(o); }
  for (const J& jf : j.at("faults").a) { C19Fault f; f.k = jf.gets("k"); f.open_index = static_cast<int>(jf.geti("open_index")); f.at = jf.geti("at"); f.err = static_cast<int>(jf.geti("err")); f.transient = jf.getb("transient"); c->faults.push_back(f); }
  c->chunk = static_cast<int>(j.geti("chunk", 4096)); c->chunk2 = static_cast<int>(j.geti("chunk2"));
  c->premain_world = static_cast<int>(j.geti("premain_world", -1));
  c->secure = j.getb("secure");
  return true;
}

// ------------------------------------------------------------------ world generation
namespace {

const char* kDefaultDir = "/usr/share/zoneinfo";

struct Opt { bool set; std::string v; };
const std::vector<Opt>& tzdir_opts() { static std::vector<Opt> v = {{false, ""}, {true, ""}, {true, "/sim/zi"}, {true, "/sim/missing"}, {true, "/sim/zi/"}, {true, "relative/dir"}}; return v; }
const std::vector<Opt>& tz_opts() {
  static std::vector<Opt> v = {{false, ""}, {true, ""}, {true, "X"}, {true, ":X"}, {true, "::X"}, {true, "localtime"}, {true, ":localtime"}, {true, ":"},
                               {true, "No/Such"}, {true, "/abs/zone"}, {true, "Fixed/UTC+03:00:00"}, {true, "UTC"}, {true, "file:X"}, {true, ":TruncNL"},
                               {true, "localtime2"}, {true, ":localtimes/site"}, {true, "Dir/localtime"}, {true, "LOCALTIME"}, {true, "localtim"}};
  return v;
}
const std::vector<Opt>& lt_opts() { static std::vector<Opt> v = {{false, ""}, {true, "/abs/lt"}, {true, "/abs/missing"}, {true, ""}, {true, "Dir/Y"}, {true, ":/abs/lt"}}; return v; }   // (the value of $LOCALTIME is used as it is: no ':' is stripped from it)
const std::vector<std::string>& name_opts() {
  static std::vector<std::string> v = {"X", "Dir/Y", "No/Such", "/abs/zone", "/abs/missing", "file:X", "file:/abs/zone", "file:", "file:file:X", "", ":X", "UTC", "UTC0",
                                       "Fixed/UTC+05:30:00", "Fixed/UTC+25:00:00", "fixed/utc+01:00:00", "ADir", "NoPerm", "Trunc", "Leap", "BadMagic", "Empty", "V1", "Real",
                                       "X/", "./X", "localtime", "Dir", "Fixed/UTC-00:00:00", "Fixed/UTC+24:00:00", "file:UTC", "/etc/localtime", "file:No/Such", "Dir//Y", "MarkF", "TruncNL", "TruncFooter",
                                       "Fixed/UTC+24:00:01", "Fixed/UTC+5:30:00", "UTC00", "utc", "Fixed/UTC+00:00:00", "Fixed/UTC-24:00:00", "Fixed/UTC+05:30", "file:Fixed/UTC+05:30:00",
                                       "Dir/../X", "X/.", "Dir/./Y", "./Dir//Y", " X", "X ", "\xc3\x9cn\xc3\xaf/X", "EST5EDT", "<+03>-3", "Dir/../../X", "X/../X", "LONG", "Dir/Y/", "x", "X\tX", "NUL1", "NUL2", "NUL3", "NUL4",
                                       // fields of 60..99 are accepted as long as the total stays within 24 h (and the zone reports the spelling it was asked for)
                                       "Fixed/UTC+00:60:00", "Fixed/UTC+05:90:00", "Fixed/UTC-00:00:99", "Fixed/UTC+23:60:01", "Fixed/UTC+23:59:60", "Fat", "file:Fat", "A%sB", "A\\B", "~/X", "EST5EDT,M3.2.0,M11.1.0",
                                       // names that leave $TZDIR through "..": still "relative to $TZDIR", and the file is there
                                       "../out/Z", "Dir/../../out/Z", "file:../out/Z"};
  return v;
}

void standard_tree(C19Case* c) {
  int id = 1;
  auto add = [&](const std::string& path, const std::string& kind, const std::string& content) {
    FsSpec f; f.path = path; f.kind = kind; f.content = content; f.marker = (content.compare(0, 6, "marker") == 0 || content.compare(0, 6, "truncf") == 0) ? id++ : 0;
    c->fs.push_back(f);
  };
  for (const std::string d : {std::string(kDefaultDir), std::string("/sim/zi"), std::string("relative/dir")}) {
    add(d, "dir", "");
    add(d + "/X", "reg", "marker");
    add(d + "/Dir", "dir", "");
    add(d + "/Dir/Y", "reg", "marker:3");
    add(d + "/:X", "reg", "marker");
    add(d + "/file:X", "reg", "marker");
    add(d + "/Fixed", "dir", "");
    add(d + "/Fixed/UTC+25:00:00", "reg", "marker");
    add(d + "/Fixed/UTC+00:60:00", "reg", "marker");   // files that a loader which forgets the built-in rule would find
    add(d + "/Fixed/UTC+05:90:00", "reg", "marker");
    add(d + "/Fixed/UTC+23:60:01", "reg", "marker");    // 86401 s: not a built-in name, so this one IS the zone
    add(d + "/fixed", "dir", "");
    add(d + "/fixed/utc+01:00:00", "reg", "marker");
    add(d + "/ADir", "dir", "");
    add(d + "/NoPerm", "noperm", "marker");
    add(d + "/Trunc", "reg", "trunc:70");
    add(d + "/Leap", "reg", "leap");
    add(d + "/BadMagic", "reg", "badmagic");
    add(d + "/Empty", "reg", "empty");
    add(d + "/V1", "reg", "marker:1");
    add(d + "/Real", "reg", "shipped:America/New_York");
    add(d + "/localtime", "reg", "marker");
    add(d + "/localtime2", "reg", "marker");
    add(d + "/localtimes", "dir", "");
    add(d + "/localtimes/site", "reg", "marker");
    add(d + "/Dir/localtime", "reg", "marker");
    add(d + "/localtim", "reg", "marker");
    add(d + "/UTC", "reg", "marker");   // must never be consulted for the name "UTC"; reachable as file:UTC
    add(d + "/ X", "reg", "marker");
    add(d + "/X ", "reg", "marker");
    add(d + "/x", "reg", "marker");             // names are case sensitive
    add(d + "/\xc3\x9cn\xc3\xaf", "dir", "");
    add(d + "/\xc3\x9cn\xc3\xaf/X", "reg", "marker");
    add(d + "/EST5EDT", "reg", "marker");
    add(d + "/EST5EDT,M3.2.0,M11.1.0", "reg", "marker");
    add(d + "/A%sB", "reg", "marker");
    add(d + "/A\\B", "reg", "marker");
    add(d + "/~", "dir", "");
    add(d + "/~/X", "reg", "marker");
    {
      size_t sl = d.rfind('/');
      std::string parent = sl == std::string::npos ? std::string("..") : (sl == 0 ? std::string("") : d.substr(0, sl));   // (relative/dir -> relative)
      add(parent + "/out", "dir", "");
      add(parent + "/out/Z", "reg", "marker");
    }
    add(d + "/Fat", "reg", "markerfat:250");    // "zic -b fat" layout: a populated 32-bit block of 1262 bytes precedes the data that is decoded
    add(d + "/MarkF", "reg", "markerf");        // marker zone with a non-empty footer
    add(d + "/TruncNL", "reg", "truncf:1");     // ... whose closing newline is missing
    add(d + "/TruncFooter", "reg", "truncf:4"); // ... cut in the middle of the footer
  }
  add("/abs", "dir", "");
  add("/abs/zone", "reg", "marker");
  add("/abs/lt", "reg", "marker:3");
  add("/etc", "dir", "");
  add("/etc/localtime", "reg", "marker");
  add("/sim", "dir", "");
}


// ---- platform fall-back sources (Android tzdata bundle, Fuchsia directories) -------------------------------
// A bundle is described by its content string, so that a replay file carries it:
//   bundle|<state>|<name>=<marker>[:<flag>];<name>=<marker>[:<flag>];...
// state: ok | badmagic | shorthdr | negindex | dataltindex | ragged      (anything but ok: the loader moves on to the next bundle)
// flag : negstart | neglen (the loader gives up on this bundle at that entry) | lenshort | lenzero (entry found, data cut: load fails)
//        | lenbeyond (declared length runs past the data: harmless)
struct BundleEntry { std::string name; int marker = 0; std::string flag; };
struct Bundle { std::string state; std::vector<BundleEntry> entries; };
const char* const kAndroidBundles[] = {"/apex/com.android.tzdata/etc/tz/tzdata", "/data/misc/zoneinfo/current/tzdata", "/system/usr/share/zoneinfo/tzdata"};
const char* const kFuchsiaPrefixes[] = {"/config/data/tzdata/", "/pkg/data/tzdata/", "/data/tzdata/", "/config/tzdata/"};

bool parse_bundle(const std::string& content, Bundle* b) {
  if (content.compare(0, 7, "bundle|") != 0) return false;
  size_t bar = content.find('|', 7);
  if (bar == std::string::npos) return false;
  b->state = content.substr(7, bar - 7);
  size_t i = bar + 1;
  while (i < content.size()) {
    size_t semi = content.find(';', i);
    if (semi == std::string::npos) semi = content.size();
    std::string item = content.substr(i, semi - i);
    i = semi + 1;
    size_t eq = item.rfind('=');
    if (eq == std::string::npos) continue;
    BundleEntry e;
    e.name = item.substr(0, eq);
    std::string rest = item.substr(eq + 1);
    size_t col = rest.find(':');
    e.marker = atoi(rest.substr(0, col).c_str());
    if (col != std::string::npos) e.flag = rest.substr(col + 1);
    b->entries.push_back(e);
  }
  return true;
}

std::string bundle_bytes(const Bundle& b) {
  auto be32 = [](std::string* s, int64_t v) { for (int k = 3; k >= 0; --k) s->push_back(static_cast<char>((static_cast<uint64_t>(v) >> (8 * k)) & 0xff)); };
  std::string index, data;
  for (const BundleEntry& e : b.entries) {
    char abbr[16];
    snprintf(abbr, sizeof abbr, "P%04d", e.marker);
    std::string z = write_tzif(marker_zone(abbr, e.marker * 60, '2'));
    std::string nm = e.name.substr(0, 40);
    nm.resize(40, '\0');
    int64_t start = static_cast<int64_t>(data.size()), len = static_cast<int64_t>(z.size());
    if (e.flag == "negstart") start = -100000;
    if (e.flag == "neglen") len = -1;
    if (e.flag == "lenshort") len -= 10;
    if (e.flag == "lenzero") len = 0;
    if (e.flag == "lenbeyond") len += 100000;
    index += nm; be32(&index, start); be32(&index, len); be32(&index, 0);
    data += z;
  }
  if (b.state == "ragged") index += std::string(7, 'r');
  std::string h = std::string("tzdata2024a", 11);
  h.push_back('\0');
  int64_t index_offset = 24, data_offset = 24 + static_cast<int64_t>(index.size());
  if (b.state == "negindex") index_offset = -24;
  if (b.state == "dataltindex") { index_offset = data_offset + 52; }
  be32(&h, index_offset); be32(&h, data_offset); be32(&h, data_offset + static_cast<int64_t>(data.size()));
  std::string out = h + index + data;
  if (b.state == "badmagic") out[2] = 'X';
  if (b.state == "shorthdr") out.resize(20);
  return out;
}

std::string content_bytes(const FsSpec& f) {
  { Bundle b; if (parse_bundle(f.content, &b)) return bundle_bytes(b); }
  const std::string& c = f.content;
  char abbr[16];
  snprintf(abbr, sizeof abbr, "P%04d", f.marker);
  if (c == "markerf" || c.compare(0, 7, "truncf:") == 0) {
    TzData d = marker_zone(abbr, f.marker * 60, '2');
    d.footer = std_footer_for(abbr, f.marker * 60);
    std::string m = write_tzif(d);
    if (c != "markerf") { size_t n = static_cast<size_t>(atoi(c.c_str() + 7)); m.resize(m.size() > n ? m.size() - n : 0); }
    return m;
  }
  if (c.compare(0, 10, "markerfat:") == 0) {
    // The same one-type zone with K stored (no-op) transitions and a populated 32-bit block of 5K+12 bytes.
    TzData d = marker_zone(abbr, f.marker * 60, '2');
    int k = atoi(c.c_str() + 10);
    for (int i = 0; i < k; ++i) { d.times.push_back(-2000000000LL + 1000000LL * i); d.idx.push_back(0); }
    d.fat_v1 = true;
    return write_tzif(d);
  }
  if (c.compare(0, 6, "marker") == 0) {
    char ver = '2';
    if (c.size() > 7) ver = c[7] == '1' ? '\0' : c[7];
    return write_tzif(marker_zone(abbr, f.marker * 60, ver));
  }
  std::string m = write_tzif(marker_zone("PXXXX", 3600, '2'));
  if (c == "badmagic") { m[0] = 'X'; return m; }
  if (c == "empty") return "";
  if (c == "leap") {  // a "right" file: one leap-second record declared (and present) in the 64-bit block
    TzLayout L = layout_of(m);
    put32(&m, L.hdr2 + 20 + 8, 1);
    m.insert(L.tail, std::string(12, '\0'));
    return m;
  }
  if (c.compare(0, 6, "trunc:") == 0) { size_t k = static_cast<size_t>(atoi(c.c_str() + 6)); if (k < m.size()) m.resize(k); return m; }
  if (c.compare(0, 8, "shipped:") == 0) return shipped_bytes(c.substr(8));
  return m;
}
bool content_valid(const FsSpec& f) {  // validity known by construction, never by asking cctz
  return (f.kind == "reg" || f.kind == "fifo") && (f.content.compare(0, 6, "marker") == 0 || f.content.compare(0, 8, "shipped:") == 0);
}

// Names with an embedded NUL character: they name no file and no built-in zone.
void expand_nul_name(std::string* n) {
  if (*n == "NUL1") *n = std::string("X\0junk", 6);
  else if (*n == "NUL2") *n = std::string("Fixed/UTC+0\0:00:00", 18);
  else if (*n == "NUL3") *n = std::string("Dir/Y\0", 6);
  else if (*n == "NUL4") *n = std::string("Fixed/UTC-00:00:0\0", 18);
}

const int64_t kCross = 6 * 19 * 6;

}  // namespace

int64_t c19_part_size(const std::string& part, const std::string& tier) {
  (void)tier;
  if (part == "cross") return kCross * static_cast<int64_t>(name_opts().size());
  if (part == "premain") return premain_worlds();
  return -1;
}

C19Case gen_c19(const std::string& part, const std::string& tier, uint64_t seed, int64_t idx) {
  (void)tier;
  C19Case c;
  c.part = part;
  if (part == "premain") {
    // The world was executed before main() by the probe in premain.cc (it is selected by this run's index); here it
    // is only described, so that the oracle and the replay file know what was asked: same files, same environment.
    c.premain_world = static_cast<int>(idx % premain_worlds());
    const char *tzdir, *tz;
    premain_env(c.premain_world, &tzdir, &tz);
    c.tzdir_set = tzdir != nullptr; c.tzdir = tzdir ? tzdir : "";
    c.tz_set = tz != nullptr; c.tz = tz ? tz : "";
    int mk = 777;
    for (const char* p : {"/usr/share/zoneinfo/PreMain", "/sim/zi/PreMain", "/abs/PreMain", "/etc/localtime"}) { FsSpec f; f.path = p; f.content = "marker"; f.marker = mk++; c.fs.push_back(f); }
    for (int i = 0; i < kPremainOps; ++i) {
      C19Op o; std::string t = premain_op_text(i);
      if (t.compare(0, 5, "load:") == 0) { o.op = "load"; o.name = t.substr(5); } else o.op = t;
      c.ops.push_back(o);
    }
    return c;
  }
  standard_tree(&c);
  Rng r(mix64(mix64(seed, hash_str("C19" + part)), static_cast<uint64_t>(idx)));
  auto set_env = [&](size_t a, size_t b, size_t d) {
    c.tzdir_set = tzdir_opts()[a].set; c.tzdir = tzdir_opts()[a].v;
    c.tz_set = tz_opts()[b].set; c.tz = tz_opts()[b].v;
    c.lt_set = lt_opts()[d].set; c.lt = lt_opts()[d].v;
  };
  if (part == "cross") {
    int64_t e = idx % kCross, n = (idx / kCross) % static_cast<int64_t>(name_opts().size());
    set_env(static_cast<size_t>(e % 6), static_cast<size_t>((e / 6) % 19), static_cast<size_t>(e / 114));
    C19Op o; o.op = "load"; o.name = name_opts()[static_cast<size_t>(n)];
    if (o.name == "LONG") o.name = "Dir/" + std::string(300, 'y');
    expand_nul_name(&o.name);
    c.ops.push_back(o);
    o.op = "local"; o.name.clear(); c.ops.push_back(o);
    o.op = "default"; c.ops.push_back(o);
    c.chunk = 4096;
    c.chunk2 = static_cast<int>(r.pick(std::vector<int>{1, 3, 7, 64, 65536}));
    return c;
  }
  if (part == "platform") {
    // Worlds in which some names are missing from $TZDIR but present in an Android bundle or a Fuchsia directory.
    set_env(r.pick(std::vector<size_t>{0, 2, 2, 3, 3}), r.pick(std::vector<size_t>{0, 1, 2, 8}), r.below(5));
    static const std::vector<std::string> pnames = {"AndroidOnly", "Both", "FuchsiaOnly", "No/Such", "X", "NoPerm", "Dir/Missing", "Second", "ThirdOnly", "Cut",
                                                    "A234567890123456789012345678901234567890", "A234567890123456789012345678901234567890tail", "file:AndroidOnly", "file:FuchsiaOnly", "/abs/missing", "Dir", "Android", "AndroidOnly/"};
    static const std::vector<std::string> states = {"ok", "ok", "ok", "ok", "badmagic", "shorthdr", "negindex", "dataltindex", "ragged"};
    static const std::vector<std::string> flags = {"", "", "", "", "", "negstart", "neglen", "lenshort", "lenzero", "lenbeyond"};
    int mk = 700;
    for (const char* bp : kAndroidBundles) {
      if (!r.chance(0.6)) continue;
      FsSpec f; f.path = bp;
      if (r.chance(0.1)) { f.kind = r.chance(0.5) ? "noperm" : "dir"; f.content = ""; c.fs.push_back(f); continue; }
      std::string spec = "bundle|" + r.pick(states) + "|";
      int ne = static_cast<int>(r.range(0, 6));
      for (int i = 0; i < ne; ++i) {
        std::string nm = r.pick(std::vector<std::string>{"AndroidOnly", "Both", "Second", "ThirdOnly", "Cut", "X", "No/Such", "NoPerm", "Other/Zone", "A234567890123456789012345678901234567890", "A234567890123456789012345678901234567890tail", "Android"});
        spec += nm + "=" + std::to_string(mk++) + (r.chance(0.3) ? ":" + r.pick(flags) : std::string()) + ";";
      }
      f.content = spec;
      c.fs.push_back(f);
    }
    for (const char* pre : kFuchsiaPrefixes) {
      if (!r.chance(0.35)) continue;
      for (const std::string& nm : {std::string("FuchsiaOnly"), std::string("Both"), std::string("No/Such"), std::string("X")}) {
        if (!r.chance(0.5)) continue;
        FsSpec f; f.path = std::string(pre) + "zoneinfo/tzif2/" + nm;
        f.content = r.chance(0.85) ? "marker" : r.pick(std::vector<std::string>{"badmagic", "trunc:70", "empty"});
        f.marker = f.content == "marker" ? mk++ : 0;
        c.fs.push_back(f);
      }
    }
    int nops = static_cast<int>(r.range(1, 5));
    for (int i = 0; i < nops; ++i) {
      C19Op o;
      if (r.chance(0.85)) { o.op = "load"; o.name = r.pick(pnames); if (r.chance(0.1)) o.name = r.pick(name_opts()); if (o.name == "LONG") o.name = "Dir/" + std::string(300, 'y'); expand_nul_name(&o.name); }
      else o.op = "local";
      c.ops.push_back(o);
    }
    if (r.chance(0.3)) { c.tz_set = true; c.tz = r.pick(pnames); }
    c.chunk = static_cast<int>(r.pick(std::vector<int>{1, 7, 24, 52, 64, 4096}));
    c.chunk2 = static_cast<int>(r.pick(std::vector<int>{1, 3, 51, 53, 512, 65536}));
    return c;
  }
  set_env(r.below(6), r.below(19), r.below(6));
  if (r.chance(0.15)) { c.tz_set = true; c.tz = r.chance(0.5) ? ":" + r.pick(name_opts()) : r.pick(name_opts()); }
  if (r.chance(0.1)) { c.lt_set = true; c.lt = r.pick(name_opts()); }
  int nops = static_cast<int>(r.range(1, 6));
  for (int i = 0; i < nops; ++i) {
    C19Op o;
    uint64_t p = r.below(100);
    if (p < 70) {
      o.op = "load"; o.name = r.pick(name_opts());
      if (o.name == "LONG") o.name = std::string(static_cast<size_t>(r.pick(std::vector<int>{200, 255, 256, 300, 1100, 4075, 4076, 4095, 4096, 5000})), 'y');
      expand_nul_name(&o.name);
      if (!c.ops.empty() && r.chance(0.15)) o.name = c.ops[r.below(c.ops.size())].name;
    }
    else if (p < 92) o.op = "local";
    else o.op = "default";
    c.ops.push_back(o);
  }
  // File content varies too: some of the healthy files use the fat layout, with 32-bit blocks around 1 KiB, 2 KiB and beyond.
  if (r.chance(0.35)) {
    for (FsSpec& f : c.fs) if (f.content == "marker" && r.chance(0.3)) f.content = "markerfat:" + std::to_string(r.pick(std::vector<int>{10, 100, 202, 203, 204, 205, 250, 407, 408, 409, 410, 1000, 2500}));
  }
  // The environment is process-global configuration that may change between calls: a fifth of the fault-free random
  // worlds change or remove TZ, TZDIR or LOCALTIME in mid-world.  (Names already loaded keep their first outcome.)
  if (part == "random" && r.chance(0.2)) {
    int ne = static_cast<int>(r.range(1, 2));
    for (int i = 0; i < ne; ++i) {
      C19Op o;
      uint64_t v = r.below(3);
      const std::vector<Opt>& opts = v == 0 ? tz_opts() : (v == 1 ? tzdir_opts() : lt_opts());
      const Opt& pick = opts[r.below(opts.size())];
      const char* var = v == 0 ? "TZ" : (v == 1 ? "TZDIR" : "LOCALTIME");
      if (pick.set) { o.op = "setenv"; o.name = std::string(var) + "=" + pick.v; } else { o.op = "unsetenv"; o.name = var; }
      c.ops.insert(c.ops.begin() + static_cast<long>(r.below(c.ops.size() + 1)), o);
    }
  }
  // A few environments the cross product does not have.
  if (part == "random" && r.chance(0.05)) { c.tzdir_set = true; c.tzdir = r.pick(std::vector<std::string>{"/sim/zi:/usr/share/zoneinfo", "/sim/zi ", " /sim/zi", "/sim/zi/.", "/sim/zi/Dir/..", "//sim//zi", "/sim/zi/X"}); }
  if (part == "random" && r.chance(0.05)) { c.tz_set = true; c.tz = r.pick(std::vector<std::string>{"EST5EDT", "EST5EDT,M3.2.0,M11.1.0", "<+03>-3", "file::X", ":file:X", "UTC0", ":UTC", "Fixed/UTC+00:60:00", "Fat", ":Fat", "A%sB", "~/X"}); }
  c.secure = r.chance(0.15);
  static const std::vector<int> chunks = {1, 2, 3, 7, 64, 512, 4096, 65536};
  c.chunk = r.pick(chunks);
  if (part == "faulted") {
    int nf = static_cast<int>(r.range(1, 2));
    for (int i = 0; i < nf; ++i) {
      C19Fault f;
      uint64_t p = r.below(100);
      if (p < 45) { f.k = "open_errno"; f.open_index = static_cast<int>(r.below(8)); f.err = r.pick(std::vector<int>{ENOENT, EACCES, EMFILE, ENFILE, ENOMEM, ELOOP, ENOTDIR, EINTR}); }
      else if (p < 85) { f.k = "read_err"; f.open_index = r.chance(0.5) ? -2 : static_cast<int>(r.below(3)); f.at = static_cast<int64_t>(r.chance(0.8) ? r.below(140) : r.below(4000)); f.err = r.chance(0.5) ? EIO : EINTR; f.transient = r.chance(0.5); }
      else { f.k = "seek_fail"; f.open_index = r.chance(0.5) ? -2 : static_cast<int>(r.below(3)); }
      c.faults.push_back(f);
    }
    if (r.chance(0.2)) {  // a FIFO where a file is expected (non-seekable stream)
      for (FsSpec& f : c.fs) if (f.path == std::string(kDefaultDir) + "/X" || f.path == "/sim/zi/X" || f.path == "/abs/zone") f.kind = "fifo";
    }
  } else {
    c.chunk2 = r.pick(chunks);
  }
  return c;
}

// ------------------------------------------------------------------ reference model (from the documentation, not from the code)
namespace {

struct Expect {
  bool ok = false;
  std::string name = "UTC";      // what name() must report
  int marker = 0;                // >0: the marker zone that must have been read
  bool builtin = false;
  int64_t fixed_off = 0;
  bool data_unverifiable = false;  // shipped content: identity not encoded
  std::string path;              // resolved path (for the log)
};

const FsSpec* find_spec(const C19Case& c, const FsNode* node, const std::map<const FsNode*, const FsSpec*>& back) {
  (void)c;
  auto it = back.find(node);
  return it == back.end() ? nullptr : it->second;
}

Expect model_load(const C19Case& c, const std::string& name, const std::map<const FsNode*, const FsSpec*>& back) {
  Expect e;
  int64_t off = 0;
  if (builtin_name(name, &off)) {
    e.ok = true; e.builtin = true; e.fixed_off = off;
    e.name = off == 0 ? "UTC" : name;   // the requested spelling, also when a field is 60..99
    return e;
  }
  std::string n = name.compare(0, 5, "file:") == 0 ? name.substr(5) : name;
  std::string path;
  if (!n.empty() && n[0] == '/') path = n;
  else path = ((c.tzdir_set && !c.tzdir.empty()) ? c.tzdir : std::string(kDefaultDir)) + "/" + n;
  e.path = path;
  int err = 0;
  const FsNode* node = fs_resolve(path, &err);
  const FsSpec* spec = node ? find_spec(c, node, back) : nullptr;
  if (spec && content_valid(*spec) && (spec->kind == "reg" || spec->kind == "fifo")) {
    e.ok = true; e.name = name; e.marker = spec->marker; e.data_unverifiable = spec->marker == 0;
  }
  if (node != nullptr || c.part != "platform" || name.find('\0') != std::string::npos) return e;
  // The file could not be opened: the built-in chain goes on to the Android bundles and then to the Fuchsia
  // directories (code comments in time_zone_info.cc; not part of the documented interface, modelled for part "platform" only).
  auto spec_at = [&](const std::string& p) -> const FsSpec* { for (const FsSpec& f : c.fs) if (f.path == p) return &f; return nullptr; };
  for (const char* bp : kAndroidBundles) {
    const FsSpec* bs = spec_at(bp);
    Bundle b;
    if (!bs || bs->kind != "reg" || !parse_bundle(bs->content, &b) || b.state != "ok") continue;
    for (const BundleEntry& be : b.entries) {
      if (be.flag == "negstart" || be.flag == "neglen") break;
      if (be.name.substr(0, 40) != n) continue;
      e.path = std::string(bp) + "[" + be.name + "]";
      if (be.flag != "lenshort" && be.flag != "lenzero") { e.ok = true; e.name = name; e.marker = be.marker; }
      return e;
    }
  }
  if (!n.empty() && n[0] == '/') return e;   // an absolute name is simply tried once more
  for (const char* pre : kFuchsiaPrefixes) {
    std::string fp = std::string(pre) + "zoneinfo/tzif2/" + n;
    int err2 = 0;
    const FsNode* fn = fs_resolve(fp, &err2);
    if (!fn) continue;
    const FsSpec* fsp = find_spec(c, fn, back);
    e.path = fp;
    if (fsp && content_valid(*fsp) && fsp->kind == "reg") { e.ok = true; e.name = name; e.marker = fsp->marker; e.data_unverifiable = fsp->marker == 0; }
    return e;
  }
  return e;
}

Expect model_local(const C19Case& c, const std::map<const FsNode*, const FsSpec*>& back) {
  std::string z = c.tz_set ? c.tz : ":localtime";
  if (!z.empty() && z[0] == ':') z = z.substr(1);
  if (z == "localtime") z = c.lt_set ? c.lt : "/etc/localtime";
  return model_load(c, z, back);
}

struct OpResult { bool ok = false; std::string name; bool is_utc = false; std::string abbr; int offset = 0; };

std::string render(const OpResult& r) {
  return std::string(r.ok ? "true" : "false") + " name=" + r.name + (r.is_utc ? " (UTC handle)" : "") + " abbr=" + r.abbr + " off=" + std::to_string(r.offset);
}

}  // namespace

Outcome exec_c19(const C19Case& c, bool keep_log, Stats* stats) {
  Outcome out;
  std::vector<std::string> log;
  uint64_t lh = 0x19;
  auto ev = [&](const std::string& s) { lh = hash_str(s, lh); if (keep_log) log.push_back(s); };
  auto viol = [&](const std::string& cls, const std::string& site, const std::string& detail) {
    Violation v; v.cls = cls; v.site = site; v.detail = detail; out.violations.push_back(v);
  };
  const bool faulted = !c.faults.empty() || std::any_of(c.fs.begin(), c.fs.end(), [](const FsSpec& f) { return f.kind == "fifo"; });
  std::map<const FsNode*, const FsSpec*> back;
  int64_t steps = 0;
  bool env_was_read = false;

  auto run_world = [&](int chunk, std::vector<OpResult>* results, std::vector<std::string>* opens, bool secure = false) {
    clear_zone_cache();
    env_reset(); fs_reset();
    priv.active = true; priv.secure = secure;
    clk.active = true;   // a fixed simulated date for the whole run (references included): replay does not depend on the day it is run
    back.clear();
    for (const FsSpec& f : c.fs) {
      FsNode& n = fs.nodes[f.path];
      n.kind = f.kind == "dir" ? FsNode::DIR : f.kind == "noperm" ? FsNode::NOPERM : f.kind == "fifo" ? FsNode::FIFO : FsNode::REG;
      if (f.kind != "dir") n.bytes = content_bytes(f);
    }
    for (const FsSpec& f : c.fs) back[&fs.nodes[f.path]] = &f;
    for (const C19Fault& f : c.faults) {
      if (f.k == "open_errno") { OpenFault of; of.open_index = f.open_index; of.err = f.err; fs.open_faults.push_back(of); }
      else if (f.k == "read_err") { ReadFault rf; rf.open_index = f.open_index; rf.at = f.at; rf.err = f.err; rf.transient = f.transient; fs.read_faults.push_back(rf); }
      else if (f.k == "seek_fail") fs.seek_fail_open_index = f.open_index;
    }
    fs.chunk = static_cast<size_t>(chunk);
    if (c.tzdir_set) env.vars["TZDIR"] = c.tzdir;
    if (c.tz_set) env.vars["TZ"] = c.tz;
    if (c.lt_set) env.vars["LOCALTIME"] = c.lt;
    env.active = true; fs.active = true;
    fac.catalogue = nullptr;   // pass-through: cctz's built-in file source runs over the simulated file system
    results->assign(c.ops.size(), OpResult());
    std::vector<std::function<void()>> bodies;
    bodies.push_back([&] {
      const cctz::time_zone utc = cctz::utc_time_zone();
      for (size_t i = 0; i < c.ops.size(); ++i) {
        const C19Op& o = c.ops[i];
        OpResult& r = (*results)[i];
        cctz::time_zone tz;
        LibraryScope ls;
        if (o.op == "setenv" || o.op == "unsetenv") {
          HarnessScope hs;
          size_t eq = o.name.find('=');
          if (o.op == "unsetenv") env.vars.erase(o.name); else env.vars[o.name.substr(0, eq)] = o.name.substr(eq + 1);
          r.ok = true; r.name = "UTC"; r.is_utc = true;
          continue;
        }
        if (o.op == "load") r.ok = cctz::load_time_zone(o.name, &tz);
        else if (o.op == "local") { tz = cctz::local_time_zone(); r.ok = true; }
        else r.ok = true;
        r.name = tz.name();
        r.is_utc = (tz == utc);
        const cctz::time_zone::absolute_lookup al = tz.lookup(tp_of(86400));
        r.abbr = al.abbr ? al.abbr : "";
        r.offset = al.offset;
        sim::yield(Y_OP);
      }
    });
    SchedConfig cfg;
    cfg.chooser = CH_SEQUENTIAL;
    set_phase("tasks");
    SchedResult sr = run_tasks(bodies, cfg);
    steps += sr.steps;
    if (sr.deadlock || sr.steps_exceeded) { viol("deadlock", "world did not finish", sr.deadlock_info); out.poisoned = true; }
    *opens = fs.opens;
    if (!env.reads.empty()) env_was_read = true;
    env.active = false; fs.active = false;
    // keep fs.nodes alive for the model (fs_resolve) until the next reset
  };

  std::vector<OpResult> res1, res2;
  std::vector<std::string> opens1, opens2;
  if (c.premain_world >= 0) {
    // Judge what the global constructor got before main() - then run the same world again now (the process is
    // cold, so the name cache still holds what was loaded then) and judge that too.
    if (!g_premain.ran || g_premain.world != c.premain_world) {
      viol("machinery:premain-probe-did-not-run", "the pre-main probe did not execute world " + std::to_string(c.premain_world), "ran=" + std::to_string(g_premain.ran) + " world=" + std::to_string(g_premain.world));
      out.log_hash = 3;
      return out;
    }
    if (g_premain.unsupported_api) viol("machinery:file-api-not-simulated", "the library called open/openat/opendir before main()", "");
    run_world(c.chunk, &res2, &opens2);   // post-main repeat (also installs fs.nodes for the model)
    res1.assign(c.ops.size(), OpResult());
    for (size_t i = 0; i < c.ops.size() && i < 8; ++i) {
      const PremainOp& pr = g_premain.r[i];
      res1[i].ok = pr.ok != 0; res1[i].is_utc = pr.is_utc != 0; res1[i].name = pr.name; res1[i].abbr = pr.abbr; res1[i].offset = pr.off;
    }
    opens1.assign(static_cast<size_t>(g_premain.fopen_calls), "(before main)");
    env_was_read = true;
    if (stats) stats->add("probe.worlds_executed_before_main");
  } else
  run_world(c.chunk, &res1, &opens1, c.secure);
  const int64_t priv_reads = priv.reads;
  set_phase("oracle");
  ev("env TZDIR=" + (c.tzdir_set ? "'" + c.tzdir + "'" : "(unset)") + " TZ=" + (c.tz_set ? "'" + c.tz + "'" : "(unset)") + " LOCALTIME=" + (c.lt_set ? "'" + c.lt + "'" : "(unset)"));
  int fopen_count = static_cast<int>(opens1.size());
  C19Case cur = c;                          // the environment as it stands before each op
  std::map<std::string, Expect> loaded;    // a name that has been loaded keeps its first outcome (the name cache)
  auto cached_load = [&](const std::string& name) {
    int64_t off0 = 0;
    if (builtin_name(name, &off0)) return model_load(cur, name, back);
    auto it = loaded.find(name);
    if (it != loaded.end()) return it->second;
    return loaded.emplace(name, model_load(cur, name, back)).first->second;
  };
  for (size_t i = 0; i < c.ops.size() && !out.poisoned; ++i) {
    const C19Op& o = c.ops[i];
    const OpResult& r = res1[i];
    Expect e;
    std::string what;
    if (o.op == "setenv" || o.op == "unsetenv") {
      size_t eq = o.name.find('=');
      std::string var = o.name.substr(0, eq), val = eq == std::string::npos ? std::string() : o.name.substr(eq + 1);
      bool set = o.op == "setenv";
      if (var == "TZ") { cur.tz_set = set; cur.tz = val; } else if (var == "TZDIR") { cur.tzdir_set = set; cur.tzdir = val; } else if (var == "LOCALTIME") { cur.lt_set = set; cur.lt = val; }
      ev(o.op + " " + o.name);
      if (stats) stats->add("probe.environment_changed_in_mid_world");
      continue;
    }
    if (o.op == "load") { e = cached_load(o.name); what = "load_time_zone('" + o.name + "')"; }
    else if (o.op == "local") {
      std::string z = cur.tz_set ? cur.tz : ":localtime";
      if (!z.empty() && z[0] == ':') z = z.substr(1);
      if (z == "localtime") z = cur.lt_set ? cur.lt : "/etc/localtime";
      e = cached_load(z); what = "local_time_zone()";
    }
    else { e = Expect(); what = "time_zone()"; }
    if (stats && c.part == "platform" && o.op != "default") {
      if (e.path.find('[') != std::string::npos) stats->add(e.ok ? "probe.android_entry_expected_to_load" : "probe.android_entry_found_but_cut");
      else if (e.path.find("/zoneinfo/tzif2/") != std::string::npos) stats->add(e.ok ? "probe.fuchsia_file_expected_to_load" : "probe.fuchsia_file_found_but_invalid");
      if (e.ok && !e.builtin && e.marker >= 700 && !r.is_utc) stats->add("probe.platform_zone_loaded");
    }
    ev(what + " -> " + render(r) + " | model: " + (e.ok ? "ok" : "fail") + " name=" + e.name + " marker=" + std::to_string(e.marker) + " path=" + e.path);
    // What a clean failure looks like.
    const bool clean_failure = (o.op == "load" ? !r.ok : true) && r.is_utc && r.name == "UTC";
    // Does the result match the model exactly?
    bool matches;
    std::string why;
    if (o.op == "default") { matches = r.is_utc && r.name == "UTC"; why = "a default-constructed time_zone must equal utc_time_zone()"; }
    else if (!e.ok) { matches = clean_failure; why = "the model says this name cannot be loaded, so the result must be false/UTC"; }
    else {
      matches = (o.op != "load" || r.ok) && r.name == e.name;
      why = "expected success with name() '" + e.name + "'";
      if (matches && e.builtin) {
        matches = r.offset == e.fixed_off && r.abbr == fixed_abbr(e.fixed_off) && (e.fixed_off != 0 || r.is_utc);
        why = "expected the built-in zone at offset " + std::to_string(e.fixed_off);
      } else if (matches && e.marker > 0) {
        char ab[16]; snprintf(ab, sizeof ab, "P%04d", e.marker);
        matches = r.abbr == ab && r.offset == e.marker * 60;
        why = std::string("expected the data stored at ") + e.path + " (marker " + ab + ")";
      } else if (matches && e.data_unverifiable) {
        matches = !r.is_utc;
      }
    }
    if (matches) continue;
    if (faulted && clean_failure) continue;   // an injected fault may turn success into a clean failure, nothing else
    if (!e.ok && o.op == "load" && !r.ok) viol("c19:fallback", what, why + "; got " + render(r));   // failed, but did not leave UTC
    else viol("c19:resolution", what, why + "; got " + render(r));
  }
  if (c.premain_world >= 0 && !out.poisoned) {
    for (size_t i = 0; i < c.ops.size(); ++i)
      if (render(res1[i]) != render(res2[i])) { viol("c19:resolution", c.ops[i].op + "('" + c.ops[i].name + "') asked again after main() started", "before main(): " + render(res1[i]) + "; now: " + render(res2[i])); break; }
  }
  if (c.chunk2 > 0 && !faulted && !out.poisoned) {
    // The same world again with a different read size and the other kind of process credentials: nothing may change.
    run_world(c.chunk2, &res2, &opens2, !c.secure);
    set_phase("oracle");
    auto creds = [](bool s) { return std::string(s ? "set-ID process (AT_SECURE=1, euid 0, uid 1000)" : "plain process"); };
    for (size_t i = 0; i < c.ops.size(); ++i)
      if (render(res1[i]) != render(res2[i])) {
        viol("c19:chunk-dependence", c.ops[i].op + "('" + c.ops[i].name + "')", "read chunk " + std::to_string(c.chunk) + ", " + creds(c.secure) + ": " + render(res1[i]) + "; read chunk " + std::to_string(c.chunk2) + ", " + creds(!c.secure) + ": " + render(res2[i]));
        break;
      }
  }
  // Seam sanity: a world that resolves a non-built-in name must have reached the simulated fopen, and
  // local_time_zone() must have read $TZ through the simulated getenv.  If not, the library no longer uses
  // these entry points and nothing this engine says about it would be a verdict (exit 2, not 1).
  {
    bool needs_file = false, needs_env = false;
    for (const C19Op& o : c.ops) {
      int64_t off;
      if (o.op == "load" && !builtin_name(o.name, &off) && o.name.find('\0') == std::string::npos) needs_file = true;   // (a name with a NUL names no file)
      if (o.op == "local") needs_env = true;
    }
    if (!fs.unsupported_api.empty()) viol("machinery:file-api-not-simulated", "the library called " + fs.unsupported_api, "only fopen, stat, lstat, access, realpath, readlink and getcwd are served from the simulated file system");
    if (needs_file && fopen_count == 0) viol("machinery:fopen-seam-bypassed", "no fopen call reached the simulated file system", "the library opened files through an entry point this harness does not intercept");
    if (needs_env && !env_was_read) viol("machinery:getenv-seam-bypassed", "local_time_zone() did not read its environment through getenv", "");
  }
  for (const std::string& s : opens1) ev("fopen " + s);
  out.nontrivial = true;
  out.distinct_key = hash_str(c19_to_json(c).at("env").dump() + c19_to_json(c).at("ops").dump() + c19_to_json(c).at("faults").dump(), static_cast<uint64_t>(c.chunk));
  out.log_hash = lh;
  out.steps = steps;
  if (keep_log) out.log = log;
  if (stats) {
    stats->add("ops", static_cast<int64_t>(c.ops.size()));
    stats->add("fopen_calls", fopen_count);
    stats->add("cookie_reads", fs.cookie_reads);
    stats->add(faulted ? "worlds_faulted" : "worlds_fault_free");
    if (c.secure || c.chunk2 > 0) stats->add("worlds_also_run_as_set_id_process");
    if (priv_reads || priv.reads) stats->add("probe.library_asked_for_process_credentials", priv_reads + priv.reads);
    for (const C19Fault& f : c.faults) stats->add("fault_configured." + f.k);
    for (auto& kv : rt.faults_fired) stats->add("fault." + kv.first, kv.second);   // fired = the injected error was actually returned to glibc
    for (const OpResult& r : res1) stats->add(r.is_utc ? "probe.result_utc" : "probe.result_zone");
    if (!rt.ub.empty()) stats->add("ubsan_reports_counted_not_judged", static_cast<int64_t>(rt.ub.size()));
  }
  rt.faults_fired.clear(); rt.probes.clear();
  fs_reset(); env_reset();
  return out;
}

}  // namespace sim
