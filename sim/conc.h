// Engine "conc": k tasks running op scripts over a shared set of zone names.
// Serves C13 (identity/value/race), C20 (factory discipline), C14-B (cache histories).
#ifndef SIM_CONC_H_
#define SIM_CONC_H_

#include <string>
#include <vector>

#include "engine.h"
#include "ops.h"
#include "simsched.h"

namespace sim {

struct ZoneSpec {
  std::string key;        // logical name ("A"); full name is "sim/<salt>/A" unless literal
  bool literal = false;   // use key verbatim (UTC, UTC0, Fixed/UTC+..)
  bool file_prefix = false;  // the name carries a "file:" prefix (a different cache key, and a different name for the factory)
  std::string base;       // recipe of the healthy bytes
  std::string state = "healthy";  // healthy | absent | badmagic | trunc | eio
  int null_times = 0;     // transient: first N factory calls give no source
  int eio_times = 0;      // transient: first N sources fail with eio at half length
  int throw_times = 0;    // transient: first N factory calls exit by exception
  int read_throw_times = 0;  // transient: first N sources throw from their second Read
};

enum OpKind : uint8_t { O_LOAD, O_UTC, O_FIXED, O_LOCAL, O_DEFAULT, O_TAKE, O_EQ, O_QUERY, O_SET_STATE, O_BULK, O_SETENV, O_NKINDS };

struct Op {
  OpKind k = O_LOAD;
  int z = -1;        // zone index (LOAD, SET_STATE)
  int slot = 0;      // destination / subject slot
  int slot2 = 0;     // EQ: other slot; TAKE: source slot
  int t2 = 0;        // TAKE: source task
  int64_t a = 0;     // FIXED: offset; BULK: how many distinct fresh names to load (then the first `slot2` of them again)
  Query q;           // QUERY
  std::string s;     // SET_STATE: new state; SETENV: "VAR=value" or "VAR" (unset) - only variables that must not matter here (TZDIR, LANG, ...)
  int64_t adv = 0;   // simulated seconds that pass before this op (the one clock is shared by all tasks and never goes back)
  int64_t skew = 0;  // if non-zero: the real-time clock is stepped to this offset from the monotonic one before this op (may go back)
};

struct ConcCase {
  std::string property;            // C13 | C14 | C20
  std::string mode;                // e.g. "free", "faulted", "cacheB", "template"
  std::vector<ZoneSpec> zones;
  int tz_env_zone = -2;            // -2: TZ unset, -1: TZ="" ; >=0: TZ names that zone (with ':' prefix if tz_env_colon)
  bool tz_env_colon = false;
  bool tz_env_via_localtime = false;   // TZ is "localtime" (with ':' if tz_env_colon) and $LOCALTIME names the zone
  std::vector<std::vector<Op>> tasks;
  SchedConfig sched;
  int factory_yields = 1;
  int factory_reenters = 0;        // the factory itself calls into cctz (see FactoryState::reenter)
  int nslots = 4;
};

J conc_to_json(const ConcCase& c);
bool conc_from_json(const J& j, ConcCase* c);
ConcCase gen_conc(const std::string& property, const std::string& tier, uint64_t seed, int64_t run_index);
// Template for exhaustive schedule enumeration: k tasks, one load each over nnames names.
ConcCase template_conc(const std::string& property, int k, int nnames, bool factory_yields);
Outcome exec_conc(const ConcCase& c, bool keep_log, Stats* stats);

}  // namespace sim
#endif
