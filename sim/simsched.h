// Deterministic cooperative scheduler: tasks are ucontext fibers on one OS
// thread; the only places a switch can happen are the yield points below.
#ifndef SIM_SIMSCHED_H_
#define SIM_SIMSCHED_H_

#include <cstdint>
#include <functional>
#include <string>
#include <vector>

#include "util.h"

namespace sim {

enum YieldKind : uint8_t {
  Y_START = 0, Y_LOCK, Y_UNLOCK, Y_FACTORY_IN, Y_FACTORY_MID, Y_FACTORY_OUT,
  Y_READ, Y_SKIP, Y_SRC_DTOR, Y_FOPEN, Y_CK_READ, Y_CK_SEEK, Y_CK_CLOSE,
  Y_ATOMIC_LD, Y_ATOMIC_ST, Y_ATOMIC_RMW, Y_OP, Y_BLOCKED, Y_END, Y_COND_WAIT, Y_COND_SIGNAL, Y_NKINDS
};
const char* yield_name(int k);

enum ChooserKind { CH_EXPLICIT = 0, CH_UNIFORM, CH_STICKY, CH_PCT, CH_WINDOW, CH_SEQUENTIAL };

struct SchedConfig {
  ChooserKind chooser = CH_UNIFORM;
  uint64_t seed = 1;             // PRNG stream (c)
  double sticky_p = 0.8;         // CH_STICKY / CH_WINDOW: keep running the current task
  int pct_depth = 2;             // CH_PCT: number of priority change points
  int pct_len = 200;             // CH_PCT: estimated run length in steps
  uint32_t disabled_kinds = 0;   // bitmask of YieldKind that do not yield this run
  std::vector<int> schedule;     // CH_EXPLICIT: task id per step (mod runnable set)
  int step_cap = 200000;
  bool store_buffer = false;     // TSan build: atomic stores weaker than seq_cst go through a per-task FIFO store buffer (x86-TSO) instead of
  double sb_retain = 0.6;        // becoming visible at once; (unused since the TTL model, kept for old replay files)
  int sb_ttl_max = 32;           // every buffered store drains after a random number (0..sb_ttl_max) of its task's later yield points, in order
  int exit_at_step = -1;         // >= 0: at that step the process "exits" - the library's static destructors run (on the main context) while the tasks carry on
  bool explicit_default_first = false;  // CH_EXPLICIT: after the list ends pick the lowest runnable id (for enumeration)
};

struct SchedResult {
  bool deadlock = false;
  bool steps_exceeded = false;
  std::string deadlock_info;
  std::vector<int> schedule;     // task id chosen at each step (always recorded)
  std::vector<uint8_t> kinds;    // yield kind the chosen task was parked at
  std::vector<uint64_t> runnable_mask;  // bit i set: task i was runnable at that step (tasks 0..63)
  uint64_t trace_hash = 0;
  uint64_t sig_hash = 0;         // as trace_hash but ignoring the (independent) first step of every task
  int steps = 0;
  int contended_locks = 0;       // times a task found the mutex held
  int cond_waits = 0, cond_timeouts = 0;  // condition-variable waits entered / timed waits that were let expire
  int switches = 0;              // steps where the chosen task differs from the previous one
  int sb_buffered = 0, sb_forwarded = 0;   // stores that went through a store buffer / loads served from the task's own buffer
  int exit_handlers_run = 0;     // static destructors of the library that were run by the simulated exit
  int tls_blocks = 0;            // per-task instances of thread_local objects created (emulated TLS)
};

// Run the given task bodies to completion under the configured chooser.
SchedResult run_tasks(const std::vector<std::function<void()>>& bodies, const SchedConfig& cfg);

// Called from seams.  No-ops outside a task.
void yield(YieldKind k);
bool in_task();
bool in_library_scope();   // inside a task AND inside library code (not in a seam that re-entered the harness)
int cur_task();          // -1 outside a task
uint64_t global_seq();   // global event sequence number (monotone within a run)
uint64_t next_seq();     // allocate one (used by event logging)
void note_window(int w); // hint for CH_WINDOW: 1 = just left CS1 after a miss, 2 = about to enter CS2

// TSan visibility control.  Inside a task everything the *harness* does is
// invisible to ThreadSanitizer (HarnessScope, the default state of a task);
// only calls into cctz run with accesses visible (LibraryScope).  Seams that
// cctz calls back into re-enter HarnessScope.  No-ops in other builds.
struct HarnessScope { HarnessScope(); ~HarnessScope(); };
struct LibraryScope { LibraryScope(); ~LibraryScope(); };

// Suppress yields (e.g. while the harness itself calls into cctz from a task
// for bookkeeping that must look atomic).
struct NoYield { NoYield(); ~NoYield(); };

// Static destructors that library code registered (function-local statics and namespace-scope objects with
// non-trivial destructors, via __cxa_atexit) while it ran inside a task.  They are withheld from the C runtime
// and run only by a simulated exit (SchedConfig::exit_at_step).
int library_exit_handlers_registered();

}  // namespace sim
#endif
