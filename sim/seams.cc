#include "seams.h"

#include <sys/auxv.h>
#include <sys/syscall.h>
#include <sys/time.h>
#include <time.h>

#include <ctype.h>
#include <dirent.h>
#include <fcntl.h>
#include <stdarg.h>
#include <stdlib.h>
#include <sys/stat.h>
#include <errno.h>
#include <execinfo.h>
#include <malloc.h>
#include <pthread.h>
#include <signal.h>
#include <stdio.h>
#include <string.h>
#include <sys/time.h>
#include <unistd.h>

#include <algorithm>
#include <atomic>
#include <exception>
#include <functional>
#include <memory>
#include <new>
#include <stdexcept>

#include "cctz/time_zone.h"
#include "cctz/zone_info_source.h"
#include "premain.h"
#include "simsched.h"

namespace sim {

Runtime rt;
FactoryState fac;
FsState fs;
EnvState env;

extern "C" pthread_t __real_pthread_self(void);
static pthread_t g_sim_thread;
static std::atomic<int> g_wrong_thread_calls{0};
int wrong_thread_calls() { return g_wrong_thread_calls.load(); }
void reset_wrong_thread_calls() { g_wrong_thread_calls.store(0); }

void begin_run(int64_t run_index) {
  rt.run_index = run_index;
  rt.ub.clear();
  rt.races.clear();
  rt.phase = "setup";
  rt.tags[0] = 0;
}
void set_phase(const char* p) { rt.phase = p; }

void crash_marker(const char* kind, const char* detail) {
  char buf[1024];
  std::string d;
  for (const char* p = detail ? detail : ""; *p && d.size() < 600; ++p) {
    if (*p == '"' || *p == '\\') { d.push_back('\\'); d.push_back(*p); }
    else if (static_cast<unsigned char>(*p) < 0x20) d.push_back(' ');
    else d.push_back(*p);
  }
  int n = snprintf(buf, sizeof buf, "\n{\"crash\":\"%s\",\"detail\":\"%s\",\"prop\":\"%s\",\"build\":\"%s\",\"run\":%lld,\"phase\":\"%s\",\"tags\":\"%s\"}\n",
                   kind, d.c_str(), rt.property, rt.build, static_cast<long long>(rt.run_index), rt.phase, rt.tags);
  if (n > 0) { ssize_t w = write(1, buf, static_cast<size_t>(std::min<int>(n, sizeof buf - 1))); (void)w; }
}

static void on_alarm(int sig) {
  crash_marker("hang", sig == SIGVTALRM ? "cpu-time watchdog" : "wall-clock watchdog");
  _exit(79);
}
static void on_fatal_signal(int sig) {
  char b[32]; snprintf(b, sizeof b, "signal %d", sig);
  crash_marker("signal", b);
  _exit(80);
}
static void on_terminate() {
  crash_marker("terminate", "std::terminate called");
  _exit(81);
}

void install_crash_handlers() {
  g_sim_thread = __real_pthread_self();
  struct sigaction sa;
  memset(&sa, 0, sizeof sa);
  sa.sa_handler = on_alarm;
  sigaction(SIGVTALRM, &sa, nullptr);
  sigaction(SIGALRM, &sa, nullptr);
#if !defined(SIM_ASAN) && !defined(SIM_TSAN)
  sa.sa_handler = on_fatal_signal;
  static char altstack[65536];
  stack_t ss; ss.ss_sp = altstack; ss.ss_size = sizeof altstack; ss.ss_flags = 0;
  sigaltstack(&ss, nullptr);
  sa.sa_flags = SA_ONSTACK;
  for (int s : {SIGSEGV, SIGBUS, SIGFPE, SIGILL, SIGABRT}) sigaction(s, &sa, nullptr);
#else
  (void)on_fatal_signal;
#endif
  std::set_terminate(on_terminate);
}
void arm_watchdog(int cpu_seconds, int wall_seconds) {
  struct itimerval it;
  memset(&it, 0, sizeof it);
  it.it_value.tv_sec = cpu_seconds;
  setitimer(ITIMER_VIRTUAL, &it, nullptr);
  it.it_value.tv_sec = wall_seconds;
  setitimer(ITIMER_REAL, &it, nullptr);
}
void disarm_watchdog() {
  struct itimerval it;
  memset(&it, 0, sizeof it);
  setitimer(ITIMER_VIRTUAL, &it, nullptr);
  setitimer(ITIMER_REAL, &it, nullptr);
}

}  // namespace sim

// ------------------------------------------------------------------ symbolizer
#if defined(SIM_ASAN) || defined(SIM_TSAN)
extern "C" void __sanitizer_symbolize_pc(void* pc, const char* fmt, char* out_buf, size_t out_buf_size);
#endif
namespace sim {
std::string symbolize_fn(uintptr_t pc) {
#if defined(SIM_ASAN) || defined(SIM_TSAN)
  static std::map<uintptr_t, std::string> cache;
  auto it = cache.find(pc);
  if (it != cache.end()) return it->second;
  char buf[4096];
  memset(buf, 0, sizeof buf);
  __sanitizer_symbolize_pc(reinterpret_cast<void*>(pc), "%f", buf, sizeof buf - 2);
  // Inlined frames come back as consecutive NUL-terminated strings, innermost first: prefer the
  // innermost frame that belongs to cctz (so that UB inside an inlined std:: helper is attributed to its caller).
  std::string s = buf;
  for (const char* p = buf; *p; p += strlen(p) + 1) {
    if (strstr(p, "cctz::") == p || strstr(p, " cctz::") || strncmp(p, "cctz::", 6) == 0) { s = p; break; }
  }
  for (size_t q; (q = s.find("(anonymous namespace)::")) != std::string::npos;) s.erase(q, 23);
  // Strip the argument list so that the class string is stable.
  size_t par = s.find('(');
  if (par != std::string::npos) s.resize(par);
  cache[pc] = s;
  return s;
#else
  (void)pc;
  return "";
#endif
}
}  // namespace sim

// ------------------------------------------------------------------ SimFactory / SimSource
namespace sim {

void factory_reset(std::map<std::string, CatEntry>* cat, int ntasks) {
  fac.catalogue = cat;
  fac.calls.clear();
  fac.read_storm = false;
  fac.sources_alive = 0;
  fac.overlapping_source_reads = 0;
  fac.task_op.assign(static_cast<size_t>(std::max(ntasks, 0)), "");
  fac.wildcard_prefix.clear();
  fac.wildcard_entry = CatEntry();
  fac.reenter = 0;
  fac.reenter_name.clear();
}

namespace {

class SimSource : public cctz::ZoneInfoSource {
 public:
  SimSource(CatEntry* e, size_t call_idx, bool eio_active, bool throws = false) : e_(e), call_(call_idx), eio_(eio_active), throws_(throws) { fac.sources_alive++; }
  ~SimSource() override { HarnessScope hs; sim::yield(Y_SRC_DTOR); fac.sources_alive--; }

  std::size_t Read(void* ptr, std::size_t size) override {
    HarnessScope hs;
    sim::yield(Y_READ);
    FactoryCall& fc = fac.calls[call_];
    fc.reads++;
    if (throws_ && fc.reads == 2) { fired("read_throw"); fc.threw = true; throw std::runtime_error("simulated: the zone data stream failed with an exception"); }
    if (fac.sources_alive > 1) fac.overlapping_source_reads++;
    if (fac.read_call_cap > 0 && fc.reads + fc.skips > fac.read_call_cap) fac.read_storm = true;
    const std::string& b = e_->bytes;
    size_t avail = pos_ < b.size() ? b.size() - pos_ : 0;
    size_t n = std::min(size, avail);
    if (eio_ && e_->eio_at >= 0) {
      size_t lim = static_cast<size_t>(e_->eio_at);
      if (pos_ >= lim) { if (size) fired("eio"); n = 0; }
      else if (pos_ + n > lim) { n = lim - pos_; fired("eio"); }
    }
    if (e_->short_at >= 0 && !short_done_) {
      size_t lim = static_cast<size_t>(e_->short_at);
      if (pos_ < lim && pos_ + n > lim) { n = lim - pos_; short_done_ = true; fired("short"); }
      else if (pos_ == lim && n > 1) { n = n / 2; short_done_ = true; fired("short"); }
    }
    if (n < size && n == avail) probe("read_hit_eof");
    if (n) memcpy(ptr, b.data() + pos_, n);
    pos_ += n;
    fc.bytes_served += static_cast<int64_t>(n);
    return n;
  }
  int Skip(std::size_t offset) override {
    HarnessScope hs;
    sim::yield(Y_SKIP);
    FactoryCall& fc = fac.calls[call_];
    fc.skips++;
    if (fac.read_call_cap > 0 && fc.reads + fc.skips > fac.read_call_cap) fac.read_storm = true;
    const std::string& b = e_->bytes;
    size_t avail = pos_ < b.size() ? b.size() - pos_ : 0;
    switch (e_->skip_mode) {
      case 1: fired("skipfail"); return -1;
      case 2: if (offset > avail) fired("skip_past_eof_ok"); pos_ += offset; if (pos_ < offset) pos_ = static_cast<size_t>(-1); return 0;
      case 3: if (offset > avail) fired("skip_clamps"); pos_ += std::min(offset, avail); return 0;
      default:
        if (offset > avail) { probe("skip_past_eof_fail"); return -1; }
        pos_ += offset; return 0;
    }
  }
  std::string Version() const override { HarnessScope hs; return e_->version; }

 private:
  CatEntry* e_;
  size_t call_;
  bool eio_;
  bool throws_ = false;
  size_t pos_ = 0;
  bool short_done_ = false;
};

std::unique_ptr<cctz::ZoneInfoSource> SimFactory(
    const std::string& name,
    const std::function<std::unique_ptr<cctz::ZoneInfoSource>(const std::string& name)>& fallback) {
  if (fac.catalogue == nullptr) return fallback(name);  // pass-through mode: built-in file source over SimFS
  HarnessScope hs;
  if (!pthread_equal(__real_pthread_self(), g_sim_thread)) {
    // Invoked on a thread the simulator does not own (invariant 1 of C20):
    // count it and touch nothing else.
    g_wrong_thread_calls.fetch_add(1);
    return nullptr;
  }
  size_t idx = fac.calls.size();
  {
    FactoryCall fc;
    fc.name = name;
    fc.task = cur_task();
    fc.in_task = in_task();
    fc.seq_in = next_seq();
    for (size_t i = 0; i < fac.calls.size(); ++i) if (!fac.calls[i].done) fc.in_flight_at_entry.push_back(static_cast<int>(i));
    if (fc.task >= 0 && static_cast<size_t>(fc.task) < fac.task_op.size()) fc.task_op = fac.task_op[static_cast<size_t>(fc.task)];
    fac.calls.push_back(fc);
  }
  sim::yield(Y_FACTORY_IN);
  for (int i = 0; i < fac.factory_yields; ++i) sim::yield(Y_FACTORY_MID);
  static std::vector<int> nesting;   // per task: are we already inside a call the factory made itself?
  if (nesting.size() < 80) nesting.assign(80, 0);
  if (fac.reenter && in_task() && cur_task() < 80 && nesting[static_cast<size_t>(cur_task())] == 0 && name != fac.reenter_name &&
      !(fac.reenter == 3 && name == "/etc/localtime")) {   // (a factory that asks for the very name it is serving is its own problem)
    // A factory is ordinary user code: it may use cctz itself (log a timestamp, resolve an alias, ...).
    const int t = cur_task();
    struct Depth { int& d; explicit Depth(int& x) : d(x) { ++d; } ~Depth() { --d; } } depth(nesting[static_cast<size_t>(t)]);
    const std::string saved = (t >= 0 && static_cast<size_t>(t) < fac.task_op.size()) ? fac.task_op[static_cast<size_t>(t)] : std::string();
    LibraryScope ls;
    switch (fac.reenter) {
      case 1: (void)cctz::fixed_time_zone(cctz::seconds(3600 * (1 + static_cast<int>(idx % 5)))); break;
      case 2: {
        if (t >= 0 && static_cast<size_t>(t) < fac.task_op.size()) fac.task_op[static_cast<size_t>(t)] = fac.reenter_name;
        cctz::time_zone nested;
        cctz::load_time_zone(fac.reenter_name, &nested);
        if (t >= 0 && static_cast<size_t>(t) < fac.task_op.size()) fac.task_op[static_cast<size_t>(t)] = saved;
        break;
      }
      case 3: {
        if (t >= 0 && static_cast<size_t>(t) < fac.task_op.size()) fac.task_op[static_cast<size_t>(t)] = "/etc/localtime";
        (void)cctz::local_time_zone();
        if (t >= 0 && static_cast<size_t>(t) < fac.task_op.size()) fac.task_op[static_cast<size_t>(t)] = saved;
        break;
      }
      default: (void)cctz::format("%Y-%m-%d %H:%M:%S %Ez", std::chrono::system_clock::from_time_t(1700000000), cctz::utc_time_zone()); break;
    }
  }
  std::unique_ptr<cctz::ZoneInfoSource> src;
  auto it = fac.catalogue->find(name);
  if (it != fac.catalogue->end()) {
    CatEntry& e = it->second;
    e.calls++;
    if (e.kind == CatEntry::FALLTHROUGH) {
      fac.calls[idx].used_fallback = true;
      { LibraryScope ls; src = fallback(name); }
    } else if (e.kind == CatEntry::BYTES) {
      if (e.throw_times > 0) {
        // A factory is user code and may fail by exception; the invocation still ends (for the in-flight bookkeeping).
        e.throw_times--; fired("factory_throw");
        sim::yield(Y_FACTORY_OUT);
        fac.calls[idx].threw = true; fac.calls[idx].seq_out = next_seq(); fac.calls[idx].done = true;
        throw std::runtime_error("simulated: the zone data service failed with an exception");
      }
      if (e.null_times > 0) { e.null_times--; fired("null_once"); }
      else {
        bool eio_active = e.eio_at >= 0 && (e.eio_times < 0 || e.sources_made < e.eio_times);
        bool throws = e.read_throw_times > 0;
        if (throws) e.read_throw_times--;
        e.sources_made++;
        src.reset(new SimSource(&e, idx, eio_active, throws));
      }
    }
  } else if (!fac.wildcard_prefix.empty() && name.compare(0, fac.wildcard_prefix.size(), fac.wildcard_prefix) == 0 &&
             fac.wildcard_entry.kind == CatEntry::BYTES) {
    fac.wildcard_entry.sources_made++;
    src.reset(new SimSource(&fac.wildcard_entry, idx, false));
  } else {
    probe("factory_unknown_name");
  }
  sim::yield(Y_FACTORY_OUT);
  fac.calls[idx].gave_source = (src != nullptr);
  fac.calls[idx].seq_out = next_seq();
  fac.calls[idx].done = true;
  return src;
}

}  // namespace
}  // namespace sim

namespace cctz_extension {
// The strong definition that replaces cctz's weak default (the library's own extension point).
ZoneInfoSourceFactory zone_info_source_factory = sim::SimFactory;
}  // namespace cctz_extension

// ------------------------------------------------------------------ SimFS / SimEnv
namespace sim {

void fs_reset() {
  fs.active = false;
  fs.nodes.clear();
  fs.open_faults.clear();
  fs.read_faults.clear();
  fs.seek_fail_open_index = -1;
  fs.chunk = 4096;
  fs.opens.clear();
  fs.other_api.clear();
  fs.unsupported_api.clear();
  fs.open_count = 0;
  fs.cookie_reads = 0;
}
const FsNode* fs_resolve(const std::string& path, int* err) {
  *err = 0;
  if (path.empty()) { *err = ENOENT; return nullptr; }
  // Normalise: collapse repeated slashes and "." components, resolve ".." against directories that
  // exist; remember whether the path demands a directory (trailing "/" or "/.").
  if (path.size() >= 4096) { *err = ENAMETOOLONG; return nullptr; }
  if (path.compare(0, 9, "/sim/cwd/") == 0) return fs_resolve(path.substr(9), err);   // the simulated working directory (getcwd/realpath)
  std::string p;
  bool trailing = path.size() > 1 && path.back() == '/';
  size_t i = 0;
  if (path[0] == '/') p = "/";
  while (i < path.size()) {
    while (i < path.size() && path[i] == '/') ++i;
    size_t e2 = path.find('/', i);
    if (e2 == std::string::npos) e2 = path.size();
    std::string comp = path.substr(i, e2 - i);
    i = e2;
    if (comp.empty()) continue;
    if (comp.size() > 255) { *err = ENAMETOOLONG; return nullptr; }
    if (comp == "." || comp == "..") {
      // what precedes must be an existing directory
      if (!p.empty() && p != "/") {
        auto dit = fs.nodes.find(p);
        if (dit == fs.nodes.end()) { *err = ENOENT; return nullptr; }
        if (dit->second.kind == FsNode::NOPERM) { *err = EACCES; return nullptr; }
        if (dit->second.kind != FsNode::DIR) { *err = ENOTDIR; return nullptr; }
      }
      if (i >= path.size()) trailing = true;
      if (comp == ".." && !p.empty() && p != "/") {
        size_t sl = p.rfind('/');
        p = (sl == std::string::npos) ? std::string() : (sl == 0 ? std::string("/") : p.substr(0, sl));
      }
      continue;
    }
    if (!p.empty() && p.back() != '/') p += "/";
    p += comp;
  }
  if (p.empty()) p = ".";
  auto it = fs.nodes.find(p);
  if (it == fs.nodes.end()) {
    *err = ENOENT;
    for (size_t k = 1; k < p.size(); ++k) if (p[k] == '/') {   // a path that runs through a non-directory is ENOTDIR
      auto pit = fs.nodes.find(p.substr(0, k));
      if (pit != fs.nodes.end() && pit->second.kind != FsNode::DIR) { *err = ENOTDIR; break; }
    }
    return nullptr;
  }
  if (trailing && it->second.kind != FsNode::DIR) { *err = ENOTDIR; return nullptr; }
  if (it->second.kind == FsNode::NOPERM) { *err = EACCES; return nullptr; }
  return &it->second;
}

ClockState clk;
PrivState priv;
CtypeState ctypes;
void env_reset() {
  clk.active = false; clk.now = 1790000000; clk.skew = 0; clk.reads = 0;
  priv.active = false; priv.secure = false; priv.reads = 0;
  ctypes.mode = 0; ctypes.calls = 0;
  env.active = false;
  env.vars.clear();
  env.reads.clear();
}

namespace {
struct Cookie {
  const FsNode* node;
  size_t pos = 0;
  int open_index = 0;
  bool seek_fail = false;
};

const char* errname(int e) {
  switch (e) {
    case ENOENT: return "ENOENT"; case EACCES: return "EACCES"; case EMFILE: return "EMFILE";
    case ENFILE: return "ENFILE"; case ENOMEM: return "ENOMEM"; case ELOOP: return "ELOOP";
    case ENOTDIR: return "ENOTDIR"; case EINTR: return "EINTR"; case EIO: return "EIO";
    case EISDIR: return "EISDIR"; case ESPIPE: return "ESPIPE"; default: return "E?";
  }
}

ssize_t ck_read(void* c, char* buf, size_t size) {
  HarnessScope hs;
  Cookie* ck = static_cast<Cookie*>(c);
  sim::yield(Y_CK_READ);
  fs.cookie_reads++;
  if (ck->node->kind == FsNode::DIR) { errno = EISDIR; return -1; }
  const std::string& b = ck->node->bytes;
  size_t avail = ck->pos < b.size() ? b.size() - ck->pos : 0;
  size_t n = std::min(std::min(size, avail), fs.chunk ? fs.chunk : size);
  for (ReadFault& rf : fs.read_faults) {
    if (rf.open_index != ck->open_index && rf.open_index != -2) continue;
    if (rf.at < 0) continue;
    size_t at = static_cast<size_t>(rf.at);
    if (at == ck->pos) {
      errno = rf.err; fired(rf.err == EINTR ? "read_eintr" : "read_eio");
      if (rf.transient) rf.at = -1;
      return -1;
    }
    if (at > ck->pos && at < ck->pos + n) n = at - ck->pos;  // deliver what precedes the bad offset first
  }
  if (n) memcpy(buf, b.data() + ck->pos, n);
  ck->pos += n;
  return static_cast<ssize_t>(n);
}
int ck_seek(void* c, off64_t* off, int whence) {
  HarnessScope hs;
  Cookie* ck = static_cast<Cookie*>(c);
  sim::yield(Y_CK_SEEK);
  if (ck->seek_fail || ck->node->kind == FsNode::FIFO) { fired("seek_espipe"); errno = ESPIPE; return -1; }
  int64_t base = 0;
  if (whence == SEEK_CUR) base = static_cast<int64_t>(ck->pos);
  else if (whence == SEEK_END) base = static_cast<int64_t>(ck->node->bytes.size());
  int64_t np = base + *off;
  if (np < 0) { errno = EINVAL; return -1; }
  ck->pos = static_cast<size_t>(np);
  *off = np;
  return 0;
}
int ck_close(void* c) {
  HarnessScope hs;
  sim::yield(Y_CK_CLOSE);
  fs.handles_open--;
  delete static_cast<Cookie*>(c);
  return 0;
}
}  // namespace
}  // namespace sim

extern "C" {
FILE* __real_fopen(const char* path, const char* mode);
char* __real_getenv(const char* name);

FILE* __wrap_fopen(const char* path, const char* mode) {
  using namespace sim;
  if (g_premain.active) return premain_fopen(path);   // (checked first: `fs` may not have been constructed yet)
  if (!fs.active) return __real_fopen(path, mode);
  HarnessScope hs;
  sim::yield(Y_FOPEN);
  int index = fs.open_count++;
  std::string p = path;
  int err = 0;
  const FsNode* node = nullptr;
  for (const OpenFault& of : fs.open_faults) if (of.open_index == index) { err = of.err; fired("fopen_errno"); }
  if (!err) node = fs_resolve(p, &err);
  fs.opens.push_back(p + " -> " + (err ? errname(err) : "ok"));
  if (err) { errno = err; return nullptr; }
  Cookie* ck = new Cookie;
  ck->node = node;
  ck->open_index = index;
  ck->seek_fail = (fs.seek_fail_open_index == index || fs.seek_fail_open_index == -2);
  cookie_io_functions_t io = {ck_read, nullptr, ck_seek, ck_close};
  FILE* f = fopencookie(ck, "rb", io);
  if (!f) { delete ck; return nullptr; }
  fs.handles_open++;
  return f;
}

// The clock: strong definitions in the executable take precedence over libc's for every caller in the process,
// including std::chrono::system_clock::now() inside libstdc++.so (and over the sanitizers' weak interceptors).
static int real_clock_gettime(clockid_t id, struct timespec* ts) { return static_cast<int>(syscall(SYS_clock_gettime, id, ts)); }
int clock_gettime(clockid_t id, struct timespec* ts) noexcept {
  using namespace sim;
  if (clk.active && ts != nullptr &&
      (id == CLOCK_REALTIME || id == CLOCK_REALTIME_COARSE || id == CLOCK_MONOTONIC || id == CLOCK_MONOTONIC_COARSE || id == CLOCK_MONOTONIC_RAW || id == CLOCK_BOOTTIME || id == CLOCK_TAI)) {
    clk.reads++;
    const bool realtime = (id == CLOCK_REALTIME || id == CLOCK_REALTIME_COARSE || id == CLOCK_TAI);
    ts->tv_sec = static_cast<time_t>(clk.now + (realtime ? clk.skew : 0));
    ts->tv_nsec = 123456789;
    return 0;
  }
  return real_clock_gettime(id, ts);
}
int gettimeofday(struct timeval* tv, void* tz) noexcept {
  using namespace sim;
  (void)tz;
  if (clk.active && tv != nullptr) { clk.reads++; tv->tv_sec = static_cast<time_t>(clk.now + clk.skew); tv->tv_usec = 123456; return 0; }
  struct timespec ts;
  int r = real_clock_gettime(CLOCK_REALTIME, &ts);
  if (tv) { tv->tv_sec = ts.tv_sec; tv->tv_usec = ts.tv_nsec / 1000; }
  return r;
}
time_t time(time_t* out) noexcept {
  using namespace sim;
  time_t v;
  if (clk.active) { clk.reads++; v = static_cast<time_t>(clk.now + clk.skew); }
  else { struct timespec ts; real_clock_gettime(CLOCK_REALTIME, &ts); v = ts.tv_sec; }
  if (out) *out = v;
  return v;
}

// File-system entry points other than fopen.  cctz uses none of them; a change that starts to consult one would
// otherwise look at the REAL file system of this machine while fopen looks at the simulated one.  stat/lstat/access/
// realpath/readlink/getcwd are served from the simulated tree; open/openat/opendir cannot be (the rest of the descriptor
// API is not simulated), so their use inside library code makes the run a machinery fault instead of a wrong verdict.
static const sim::FsNode* fs_lookup_for_stat(const char* path, int* err) {
  using namespace sim;
  const FsNode* n = fs_resolve(path ? path : "", err);
  if (!n && *err == EACCES) {   // an unreadable node still exists for stat()
    std::string p = path;
    while (p.size() > 1 && p.back() == '/') p.pop_back();
    auto it = fs.nodes.find(p);
    if (it != fs.nodes.end()) { *err = 0; return &it->second; }
  }
  return n;
}
static void note_api(const char* what, const char* path) { sim::HarnessScope hs; sim::fs.other_api.push_back(std::string(what) + "(" + (path ? path : "") + ")"); sim::probe("library_used_file_api_other_than_fopen"); }
int __real_stat(const char* path, struct stat* st);
int __wrap_stat(const char* path, struct stat* st) {
  using namespace sim;
  if (g_premain.active) {
    bool dir = false;
    if (!premain_exists(path, &dir)) { errno = ENOENT; return -1; }
    memset(st, 0, sizeof *st);
    st->st_mode = dir ? (S_IFDIR | 0755) : (S_IFREG | 0644); st->st_size = dir ? 4096 : 60; st->st_nlink = 1;
    return 0;
  }
  if (!fs.active || !in_library_scope()) return __real_stat(path, st);
  note_api("stat", path);
  int err = 0;
  const FsNode* n = fs_lookup_for_stat(path, &err);
  if (!n) { errno = err; return -1; }
  memset(st, 0, sizeof *st);
  st->st_mode = n->kind == FsNode::DIR ? (S_IFDIR | 0755) : n->kind == FsNode::FIFO ? (S_IFIFO | 0644) : n->kind == FsNode::NOPERM ? (S_IFREG | 0000) : (S_IFREG | 0644);
  st->st_size = static_cast<off_t>(n->bytes.size());
  st->st_nlink = 1; st->st_uid = 1000; st->st_gid = 1000; st->st_mtime = 1600000000; st->st_blksize = 4096;
  return 0;
}
int __real_lstat(const char* path, struct stat* st);
int __wrap_lstat(const char* path, struct stat* st) {
  if (sim::g_premain.active) return __wrap_stat(path, st);
  if (!sim::fs.active || !sim::in_library_scope()) return __real_lstat(path, st);
  return __wrap_stat(path, st);   // (the simulated tree has no symbolic links)
}
int __real_access(const char* path, int mode);
int __wrap_access(const char* path, int mode) {
  using namespace sim;
  if (g_premain.active) { bool dir = false; if (premain_exists(path, &dir) && !(mode & W_OK)) return 0; errno = ENOENT; return -1; }
  if (!fs.active || !in_library_scope()) return __real_access(path, mode);
  note_api("access", path);
  int err = 0;
  const FsNode* n = fs_lookup_for_stat(path, &err);
  if (!n) { errno = err; return -1; }
  if (n->kind == FsNode::NOPERM && (mode & (R_OK | W_OK | X_OK))) { errno = EACCES; return -1; }
  if ((mode & W_OK) || ((mode & X_OK) && n->kind != FsNode::DIR)) { errno = EACCES; return -1; }
  return 0;
}
char* __real_realpath(const char* path, char* resolved);
char* __wrap_realpath(const char* path, char* resolved) {
  using namespace sim;
  if (g_premain.active) {
    bool dir = false;
    if (!premain_exists(path, &dir)) { errno = ENOENT; return nullptr; }
    size_t n = strlen(path);
    while (n > 1 && path[n - 1] == '/') --n;
    if (!resolved) resolved = static_cast<char*>(malloc(n + 1));
    memcpy(resolved, path, n); resolved[n] = '\0';
    return resolved;
  }
  if (!fs.active || !in_library_scope()) return __real_realpath(path, resolved);
  note_api("realpath", path);
  int err = 0;
  const FsNode* n = fs_lookup_for_stat(path, &err);
  if (!n) { errno = err; return nullptr; }
  std::string found;
  for (auto& kv : fs.nodes) if (&kv.second == n) found = kv.first;
  if (found.empty() || found[0] != '/') found = "/sim/cwd/" + found;
  if (!resolved) resolved = static_cast<char*>(malloc(found.size() + 1));
  memcpy(resolved, found.c_str(), found.size() + 1);
  return resolved;
}
ssize_t __real_readlink(const char* path, char* buf, size_t len);
ssize_t __wrap_readlink(const char* path, char* buf, size_t len) {
  using namespace sim;
  if (g_premain.active) { bool dir = false; errno = premain_exists(path, &dir) ? EINVAL : ENOENT; return -1; }
  if (!fs.active || !in_library_scope()) return __real_readlink(path, buf, len);
  note_api("readlink", path);
  int err = 0;
  errno = fs_lookup_for_stat(path, &err) ? EINVAL : err;   // nothing in the simulated tree is a symbolic link
  return -1;
}
char* __real_getcwd(char* buf, size_t size);
char* __wrap_getcwd(char* buf, size_t size) {
  using namespace sim;
  if (!g_premain.active) {
    if (!fs.active || !in_library_scope()) return __real_getcwd(buf, size);
    note_api("getcwd", "");
  }
  static const char kCwd[] = "/sim/cwd";
  if (!buf) { buf = static_cast<char*>(malloc(size > sizeof kCwd ? size : sizeof kCwd)); }
  else if (size < sizeof kCwd) { errno = ERANGE; return nullptr; }
  memcpy(buf, kCwd, sizeof kCwd);
  return buf;
}
static void unsupported_api(const char* what, const char* path) {
  sim::HarnessScope hs;
  if (sim::fs.unsupported_api.empty()) sim::fs.unsupported_api = std::string(what) + "(" + (path ? path : "") + ")";
}
int __real_open(const char* path, int flags, ...);
int __wrap_open(const char* path, int flags, ...) {
  va_list ap; va_start(ap, flags); int mode = va_arg(ap, int); va_end(ap);
  if (sim::g_premain.active) { sim::g_premain.unsupported_api = 1; errno = ENOENT; return -1; }
  if (!sim::fs.active || !sim::in_library_scope()) return __real_open(path, flags, mode);
  unsupported_api("open", path); errno = ENOENT; return -1;
}
int __real_open64(const char* path, int flags, ...);
int __wrap_open64(const char* path, int flags, ...) {
  va_list ap; va_start(ap, flags); int mode = va_arg(ap, int); va_end(ap);
  if (sim::g_premain.active) { sim::g_premain.unsupported_api = 1; errno = ENOENT; return -1; }
  if (!sim::fs.active || !sim::in_library_scope()) return __real_open64(path, flags, mode);
  unsupported_api("open64", path); errno = ENOENT; return -1;
}
int __real_openat(int dirfd, const char* path, int flags, ...);
int __wrap_openat(int dirfd, const char* path, int flags, ...) {
  va_list ap; va_start(ap, flags); int mode = va_arg(ap, int); va_end(ap);
  if (sim::g_premain.active) { sim::g_premain.unsupported_api = 1; errno = ENOENT; return -1; }
  if (!sim::fs.active || !sim::in_library_scope()) return __real_openat(dirfd, path, flags, mode);
  unsupported_api("openat", path); errno = ENOENT; return -1;
}
DIR* __real_opendir(const char* path);
DIR* __wrap_opendir(const char* path) {
  if (sim::g_premain.active) { sim::g_premain.unsupported_api = 1; errno = ENOENT; return nullptr; }
  if (!sim::fs.active || !sim::in_library_scope()) return __real_opendir(path);
  unsupported_api("opendir", path); errno = ENOENT; return nullptr;
}

// C library functions that keep hidden state in one process-wide static (strtok's continuation pointer, the buffer
// behind localtime/gmtime/ctime/asctime, the locale; glibc documents them MT-Unsafe - strerror, rand, tzset, localtime_r are MT-Safe there and are left alone).  The C library is not
// instrumented, so ThreadSanitizer cannot see two threads colliding in them, and no lock, atomic or I/O operation
// separates two calls, so the scheduler would never interleave them.  Each one is therefore (a) a yield point and (b)
// an access to a stand-in variable that ThreadSanitizer does see: two tasks using one of them without synchronisation
// are reported as the data race they are.  cctz uses none of them on the unchanged tree (time_zone_libc.cc is only
// reached through the test-only "libc:" names).
extern "C" void __tsan_write8(void* addr) __attribute__((weak));
static long long g_libc_hidden_state[16];
static void libc_hidden_state_access(int which, const char* name) {
  if (!sim::in_library_scope()) return;
  sim::probe("library_used_non_reentrant_libc_function");
  (void)name;
  sim::yield(sim::Y_OP);
  if (__tsan_write8) __tsan_write8(&g_libc_hidden_state[which]);
}
char* __real_strtok(char* s, const char* d);
char* __wrap_strtok(char* s, const char* d) { libc_hidden_state_access(0, "strtok"); return __real_strtok(s, d); }
struct tm* __real_localtime(const time_t* t);
struct tm* __wrap_localtime(const time_t* t) { libc_hidden_state_access(2, "localtime"); return __real_localtime(t); }
struct tm* __real_gmtime(const time_t* t);
struct tm* __wrap_gmtime(const time_t* t) { libc_hidden_state_access(2, "gmtime"); return __real_gmtime(t); }
char* __real_ctime(const time_t* t);
char* __wrap_ctime(const time_t* t) { libc_hidden_state_access(2, "ctime"); return __real_ctime(t); }
char* __real_asctime(const struct tm* t);
char* __wrap_asctime(const struct tm* t) { libc_hidden_state_access(2, "asctime"); return __real_asctime(t); }
char* __real_setlocale(int c, const char* l);
char* __wrap_setlocale(int c, const char* l) { libc_hidden_state_access(4, "setlocale"); return __real_setlocale(c, l); }

// <cctype> under a "foreign" locale.
#define SIM_CTYPE(fn, extra)                                                                          \
  int __real_##fn(int c);                                                                             \
  int __wrap_##fn(int c) {                                                                            \
    if (sim::ctypes.mode == 0 || !sim::in_task()) return __real_##fn(c);                              \
    sim::ctypes.calls++;                                                                              \
    const int u = c & 0xff;                                                                           \
    (void)u;                                                                                          \
    return extra;                                                                                     \
  }
SIM_CTYPE(isalpha, (__real_isalpha(c) || (c >= 0xc0 && c <= 0xff && c != 0xd7 && c != 0xf7) || c == 0xaa || c == 0xb5 || c == 0xba))
SIM_CTYPE(isalnum, (__real_isalnum(c) || (c >= 0xc0 && c <= 0xff && c != 0xd7 && c != 0xf7) || c == 0xb2 || c == 0xb3 || c == 0xb9))
SIM_CTYPE(isdigit, (__real_isdigit(c) || c == 0xb2 || c == 0xb3 || c == 0xb9))
SIM_CTYPE(isspace, (__real_isspace(c) || c == 0xa0 || c == 0x85))
SIM_CTYPE(isupper, (__real_isupper(c) || (c >= 0xc0 && c <= 0xde && c != 0xd7)))
SIM_CTYPE(islower, (__real_islower(c) || (c >= 0xdf && c <= 0xff && c != 0xf7)))
SIM_CTYPE(ispunct, (__real_ispunct(c) && c != '<' ? 1 : (c == 0xd7 || c == 0xf7)))
SIM_CTYPE(tolower, (c == 'I' ? 0xfd : (c >= 0xc0 && c <= 0xde && c != 0xd7 ? c + 0x20 : __real_tolower(c))))
SIM_CTYPE(toupper, (c == 'i' ? 0xdd : (c >= 0xe0 && c <= 0xfe && c != 0xf7 ? c - 0x20 : __real_toupper(c))))
#undef SIM_CTYPE

// Credentials.
unsigned long __real_getauxval(unsigned long type);
unsigned long __wrap_getauxval(unsigned long type) {
  using namespace sim;
  if (priv.active && type == AT_SECURE) { priv.reads++; return priv.secure ? 1 : 0; }
  return __real_getauxval(type);
}
uid_t __real_getuid(void); uid_t __real_geteuid(void); gid_t __real_getgid(void); gid_t __real_getegid(void);
uid_t __wrap_getuid(void) { using namespace sim; if (priv.active) { priv.reads++; return 1000; } return __real_getuid(); }
uid_t __wrap_geteuid(void) { using namespace sim; if (priv.active) { priv.reads++; return priv.secure ? 0 : 1000; } return __real_geteuid(); }
gid_t __wrap_getgid(void) { using namespace sim; if (priv.active) { priv.reads++; return 1000; } return __real_getgid(); }
gid_t __wrap_getegid(void) { using namespace sim; if (priv.active) { priv.reads++; return priv.secure ? 0 : 1000; } return __real_getegid(); }
char* __wrap_getenv(const char* name);
char* __real_secure_getenv(const char* name);
char* __wrap_secure_getenv(const char* name) {
  using namespace sim;
  if (!env.active && !g_premain.active) return __real_secure_getenv(name);
  if (priv.active && priv.secure) { priv.reads++; HarnessScope hs; env.reads.push_back(name); return nullptr; }   // what glibc does in a set-ID process
  return __wrap_getenv(name);
}

char* __wrap_getenv(const char* name) {
  using namespace sim;
  if (g_premain.active) return premain_getenv(name);
  if (!env.active) return __real_getenv(name);
  HarnessScope hs;
  env.reads.push_back(name);
  auto it = env.vars.find(name);
  if (it == env.vars.end()) return nullptr;
  return const_cast<char*>(it->second.c_str());
}
}  // extern "C"

// ------------------------------------------------------------------ heap budget
namespace sim {
static int64_t g_budget = 0, g_live = 0, g_peak_req = 0;
static bool g_budget_hit = false;
void heap_set_budget(int64_t bytes) { g_budget = bytes; g_live = 0; g_peak_req = 0; g_budget_hit = false; }
int64_t heap_peak_request() { return g_peak_req; }
bool heap_budget_hit() { return g_budget_hit; }
static inline void* budget_alloc(size_t n, bool nothrow) {
  const bool enforce = g_budget > 0 && sim::in_task();   // the scheduler's own bookkeeping (main context) is exempt
  if (enforce) {
    if (static_cast<int64_t>(n) > g_peak_req) g_peak_req = static_cast<int64_t>(n);
    if (n > static_cast<size_t>(g_budget) || g_live + static_cast<int64_t>(n) > g_budget) {
      g_budget_hit = true;
      if (nothrow) return nullptr;
      throw std::bad_alloc();
    }
  }
  void* p = malloc(n ? n : 1);
  if (!p) { if (nothrow) return nullptr; throw std::bad_alloc(); }
  if (enforce) g_live += static_cast<int64_t>(malloc_usable_size(p));
  return p;
}
static inline void budget_free(void* p) {
  if (!p) return;
  if (g_budget > 0) { g_live -= static_cast<int64_t>(malloc_usable_size(p)); if (g_live < 0) g_live = 0; }
  free(p);
}
}  // namespace sim
#if !defined(SIM_TSAN)  // the TSan runtime owns operator new/delete; the budget is only needed where C12 runs
void* operator new(size_t n) { return sim::budget_alloc(n, false); }
void* operator new[](size_t n) { return sim::budget_alloc(n, false); }
void* operator new(size_t n, const std::nothrow_t&) noexcept { return sim::budget_alloc(n, true); }
void* operator new[](size_t n, const std::nothrow_t&) noexcept { return sim::budget_alloc(n, true); }
void operator delete(void* p) noexcept { sim::budget_free(p); }
void operator delete[](void* p) noexcept { sim::budget_free(p); }
void operator delete(void* p, size_t) noexcept { sim::budget_free(p); }
void operator delete[](void* p, size_t) noexcept { sim::budget_free(p); }
#endif

// ------------------------------------------------------------------ sanitizer hooks
extern "C" {

void __real___assert_fail(const char* expr, const char* file, unsigned line, const char* func) __attribute__((noreturn));
void __wrap___assert_fail(const char* expr, const char* file, unsigned line, const char* func) {
  char b[512];
  // Class is assert@<function>; the line number is informational only.
  std::string fn = func ? func : "?";
  snprintf(b, sizeof b, "%s|%s|%s:%u", fn.c_str(), expr ? expr : "", file ? file : "", line);
  sim::crash_marker("assert", b);
  _exit(78);
}

#if defined(SIM_ASAN)
__attribute__((used)) const char* __asan_default_options() {
  return "exitcode=77:detect_leaks=0:detect_stack_use_after_return=0:allocator_may_return_null=1:"
         "clear_shadow_mmap_threshold=16777216:handle_abort=1:print_summary=1:symbolize=1:max_malloc_fill_size=4096:malloc_fill_byte=190";
}
__attribute__((used)) const char* __ubsan_default_options() { return "print_stacktrace=0:halt_on_error=0"; }
void __asan_on_error() { sim::crash_marker("asan", "see stderr report"); }

// UBSan: every handler the library can call is wrapped, so a report is
// recorded in-process, attributed to the running run, and never de-duplicated.
struct UbLoc { const char* file; unsigned line; unsigned col; };
static void ub_record(const char* kind, void* data, void* ret) {
  sim::UbReport r;
  r.kind = kind;
  const UbLoc* loc = static_cast<const UbLoc*>(data);
  if (loc && loc->file) { r.file = loc->file; r.line = loc->line; }
  r.pc = reinterpret_cast<uintptr_t>(ret);
  r.task = sim::cur_task();
  if (sim::rt.ub.size() < 64) sim::rt.ub.push_back(r);
}
#define UB_WRAP(name)                                                                            \
  void __wrap___ubsan_handle_##name(void* data, uintptr_t, uintptr_t, uintptr_t) {               \
    ub_record(#name, data, __builtin_return_address(0));                                         \
  }
UB_WRAP(add_overflow) UB_WRAP(sub_overflow) UB_WRAP(mul_overflow) UB_WRAP(negate_overflow)
UB_WRAP(divrem_overflow) UB_WRAP(shift_out_of_bounds) UB_WRAP(out_of_bounds)
UB_WRAP(load_invalid_value) UB_WRAP(type_mismatch_v1) UB_WRAP(pointer_overflow)
UB_WRAP(float_cast_overflow) UB_WRAP(vla_bound_not_positive) UB_WRAP(nonnull_arg)
UB_WRAP(invalid_builtin) UB_WRAP(alignment_assumption) UB_WRAP(implicit_conversion)
void __wrap___ubsan_handle_nonnull_return_v1(void*, void* loc, uintptr_t, uintptr_t) {
  ub_record("nonnull_return", loc, __builtin_return_address(0));
}
void __wrap___ubsan_handle_builtin_unreachable(void* data) {
  ub_record("builtin_unreachable", data, __builtin_return_address(0));
  const UbLoc* loc = static_cast<const UbLoc*>(data);
  char b[300]; snprintf(b, sizeof b, "builtin_unreachable|%s:%u", loc && loc->file ? loc->file : "?", loc ? loc->line : 0);
  sim::crash_marker("ubsan-fatal", b);
  _exit(82);
}
void __wrap___ubsan_handle_missing_return(void* data) {
  const UbLoc* loc = static_cast<const UbLoc*>(data);
  char b[300]; snprintf(b, sizeof b, "missing_return|%s:%u", loc && loc->file ? loc->file : "?", loc ? loc->line : 0);
  sim::crash_marker("ubsan-fatal", b);
  _exit(82);
}
#endif  // SIM_ASAN

#if defined(SIM_TSAN)
__attribute__((used)) const char* __tsan_default_options() {
  return "halt_on_error=0:suppress_equal_stacks=0:suppress_equal_addresses=0:report_signal_unsafe=0:"
         "exitcode=0:history_size=4:report_thread_leaks=0:report_destroy_locked=0:second_deadlock_stack=1";
}
int __tsan_get_report_data(void* report, const char** description, int* count, int* stack_count, int* mop_count,
                           int* loc_count, int* mutex_count, int* thread_count, int* unique_tid_count,
                           void** sleep_trace, unsigned long trace_size);
int __tsan_get_report_mop(void* report, unsigned long idx, int* tid, void** addr, int* size, int* write, int* atomic,
                          void** trace, unsigned long trace_size);
int __tsan_get_report_stack(void* report, unsigned long idx, void** trace, unsigned long trace_size);

struct RawRace { char desc[64]; void* pcs[2][24]; int write[2]; };
static RawRace g_raw_races[16];
static int g_nraw = 0;

void __tsan_on_report(void* report) {
  // The runtime holds its report locks here: no allocation, no symbolizer.  Raw PCs go into static
  // storage; finalize_races() turns them into names after the tasks have finished.
  if (g_nraw >= 16) return;
  RawRace& rr = g_raw_races[g_nraw];
  memset(&rr, 0, sizeof rr);
  const char* desc = nullptr;
  int count = 0, stack_count = 0, mop_count = 0, loc_count = 0, mutex_count = 0, thread_count = 0, utid = 0;
  void* sleep_trace[16] = {nullptr};
  __tsan_get_report_data(report, &desc, &count, &stack_count, &mop_count, &loc_count, &mutex_count, &thread_count,
                         &utid, sleep_trace, 16);
  strncpy(rr.desc, desc ? desc : "?", sizeof rr.desc - 1);
  for (int i = 0; i < mop_count && i < 2; ++i) {
    int tid = 0, size = 0, atomic = 0;
    void* addr = nullptr;
    __tsan_get_report_mop(report, static_cast<unsigned long>(i), &tid, &addr, &size, &rr.write[i], &atomic, rr.pcs[i], 23);
  }
  if (mop_count == 0)
    for (int i = 0; i < stack_count && i < 2; ++i) __tsan_get_report_stack(report, static_cast<unsigned long>(i), rr.pcs[i], 23);
  ++g_nraw;
}
#endif  // SIM_TSAN

}  // extern "C"

namespace sim {
void finalize_races() {
#if defined(SIM_TSAN)
  for (int k = 0; k < g_nraw; ++k) {
    const RawRace& raw = g_raw_races[k];
    RaceReport r;
    r.desc = raw.desc;
    r.write0 = raw.write[0]; r.write1 = raw.write[1];
    for (int side = 0; side < 2; ++side) {
      std::string all, first;
      for (int i = 0; i < 24 && raw.pcs[side][i]; ++i) {
        // Report traces hold return addresses; symbolize the call instruction.
        std::string fn = symbolize_fn(reinterpret_cast<uintptr_t>(raw.pcs[side][i]) - 1);
        if (!all.empty()) all += " <- ";
        all += fn;
        if (first.empty() && fn.find("cctz::") != std::string::npos) first = fn;
      }
      (side == 0 ? r.stack0 : r.stack1) = all;
      (side == 0 ? r.fn0 : r.fn1) = first;
    }
    r.cctz_frame = !r.fn0.empty() || !r.fn1.empty();
    r.finalized = true;
    rt.races.push_back(r);
  }
  g_nraw = 0;
#endif
}
}  // namespace sim
