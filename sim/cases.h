// Dispatch over the engines: one CaseBox is one fully explicit, replayable run.
#ifndef SIM_CASES_H_
#define SIM_CASES_H_

#include <string>

#include "c12.h"
#include "c14a.h"
#include "c19.h"
#include "conc.h"
#include "engine.h"

namespace sim {

struct CaseBox {
  std::string engine;     // conc | c12 | c14a | c19
  std::string property;
  ConcCase conc;
  C12Case c12;
  C14aCase c14a;
  C19Case c19;
  J generic;              // engines that keep their case as JSON
};

CaseBox gen_case(const std::string& property, const std::string& part, const std::string& tier, uint64_t seed, int64_t idx);
Outcome exec_case(CaseBox& cb, bool keep_log, Stats* stats);
J case_to_json(const CaseBox& cb);
bool case_from_json(const J& j, CaseBox* cb);
int64_t part_size(const std::string& property, const std::string& part, const std::string& tier);  // enumerated parts; -1 otherwise
void set_recorded_schedule(CaseBox* cb, const Outcome& o);  // make the case explicit (replayable without its PRNG)

}  // namespace sim
#endif
