// Independent TZif reader / writer / layout calculator used by generators,
// fault injectors and known-finding preconditions.  It never calls cctz.
#ifndef SIM_TZIF_H_
#define SIM_TZIF_H_

#include <cstdint>
#include <string>
#include <vector>

#include "util.h"

namespace sim {

struct TzType { int32_t utoff = 0; uint8_t isdst = 0; uint8_t abbrind = 0; };

struct TzData {
  char version = '2';                 // '\0', '2', '3', '4'
  std::vector<int64_t> times;
  std::vector<uint8_t> idx;
  std::vector<TzType> types;
  std::string abbrs;                  // NUL-separated, NUL-terminated
  std::vector<uint8_t> isstd, isut;   // empty or one per type
  std::string footer;                 // without the enclosing newlines
  bool fat_v1 = false;                // write a populated 32-bit block as well
};

// Byte offsets of every table of a (well-formed) TZif image.
struct TzLayout {
  bool ok = false;
  char version = 0;
  size_t hdr1 = 0;                    // offset of first header (always 0)
  size_t counts1[6] = {0};            // isutcnt,isstdcnt,leapcnt,timecnt,typecnt,charcnt (file order)
  size_t data1 = 0, data1_len = 0;
  size_t hdr2 = 0;                    // offset of second header (0 if v1 only)
  size_t counts2[6] = {0};
  size_t times = 0, idx = 0, types = 0, abbrs = 0, tail = 0;  // of the block cctz decodes
  size_t time_len = 4;
  size_t timecnt = 0, typecnt = 0, charcnt = 0;
  size_t footer = 0, footer_len = 0;  // offset of first '\n'; length including both newlines
  size_t total = 0;
};

std::string write_tzif(const TzData& d);
bool parse_tzif(const std::string& bytes, TzData* out, TzLayout* lay);  // decodes what a v2+ reader decodes
TzLayout layout_of(const std::string& bytes);

inline void put32(std::string* s, size_t off, int64_t v) {
  for (int i = 0; i < 4; ++i) (*s)[off + i] = static_cast<char>((static_cast<uint64_t>(v) >> (8 * (3 - i))) & 0xff);
}
inline void put64(std::string* s, size_t off, int64_t v) {
  for (int i = 0; i < 8; ++i) (*s)[off + i] = static_cast<char>((static_cast<uint64_t>(v) >> (8 * (7 - i))) & 0xff);
}
inline int64_t get32(const std::string& s, size_t off) {
  uint32_t v = 0; for (int i = 0; i < 4; ++i) v = (v << 8) | static_cast<unsigned char>(s[off + i]);
  return static_cast<int32_t>(v);
}
inline int64_t get64(const std::string& s, size_t off) {
  uint64_t v = 0; for (int i = 0; i < 8; ++i) v = (v << 8) | static_cast<unsigned char>(s[off + i]);
  return static_cast<int64_t>(v);
}

// Synthetic well-formed zone from a recipe seed (see DESIGN Appendix H).
TzData synth_zone(uint64_t recipe_seed);
// A sentence of the POSIX-TZ grammar (valid=true) or a near miss.
std::string gen_posix_footer(Rng* rng, bool valid);
// Tiny marker zone: one type, abbreviation `abbr`, offset `utoff`.
// The std-only POSIX footer that matches a single-type zone (abbr, utoff).
std::string std_footer_for(const std::string& abbr, int32_t utoff);
TzData marker_zone(const std::string& abbr, int32_t utoff, char version);

}  // namespace sim
#endif
