#include "c12.h"

#include <errno.h>
#include <malloc.h>

#include <algorithm>
#include <cinttypes>
#include <functional>
#include <new>

#include <valgrind/valgrind.h>

#include "cctz/time_zone.h"
#include "seams.h"
#include "simsched.h"

namespace sim {

// ------------------------------------------------------------------ JSON
J c12_to_json(const C12Case& c) {
  J j = J::obj();
  j.set("engine", "c12"); j.set("property", "C12"); j.set("part", c.part);
  j.set("base", c.base);
  J fs = J::arr();
  for (const ByteFault& f : c.faults) {
    J jf = J::obj();
    jf.set("k", f.k);
    if (f.a) jf.set("a", f.a);
    if (f.b) jf.set("b", f.b);
    if (f.v) jf.set("v", f.v);
    if (!f.s.empty()) jf.set("s", f.s);
    fs.push(jf);
  }
  j.set("faults", fs);
  j.set("eio_at", c.eio_at); j.set("short_at", c.short_at); j.set("skip_mode", c.skip_mode);
  j.set("bystander", c.bystander); j.set("preload", c.preload); j.set("heap_budget_mib", c.heap_budget_mib);
  j.set("sched_seed", static_cast<int64_t>(c.sched_seed));
  if (c.via_file) { j.set("via_file", true); j.set("file_chunk", c.file_chunk); }
  j.set("explicit_schedule", c.explicit_schedule);
  J s = J::arr();
  for (int v : c.schedule) s.push(v);
  j.set("schedule", s);
  J sl = J::arr(); sl.push("faults");
  j.set("shrink_lists", sl);
  J sc = J::obj();
  sc.set("eio_at", -1); sc.set("short_at", -1); sc.set("skip_mode", 0); sc.set("bystander", false); sc.set("preload", 0);
  j.set("shrink_scalars", sc);
  return j;
}

bool c12_from_json(const J& j, C12Case* c) {
  c->part = j.gets("part");
  c->base = j.gets("base");
  c->faults.clear();
  for (const J& jf : j.at("faults").a) {
    ByteFault f;
    f.k = jf.gets("k"); f.a = jf.geti("a"); f.b = jf.geti("b"); f.v = jf.geti("v"); f.s = jf.gets("s");
    c->faults.push_back(f);
  }
  c->eio_at = j.geti("eio_at", -1); c->short_at = j.geti("short_at", -1); c->skip_mode = static_cast<int>(j.geti("skip_mode"));
  c->bystander = j.getb("bystander"); c->preload = static_cast<int>(j.geti("preload")); c->heap_budget_mib = static_cast<int>(j.geti("heap_budget_mib", 8));
  c->sched_seed = static_cast<uint64_t>(j.geti("sched_seed", 1));
  c->via_file = j.getb("via_file"); c->file_chunk = static_cast<int>(j.geti("file_chunk", 4096));
  c->explicit_schedule = j.getb("explicit_schedule");
  c->schedule.clear();
  for (const J& v : j.at("schedule").a) c->schedule.push_back(static_cast<int>(v.i));
  return !c->base.empty();
}

// ------------------------------------------------------------------ out-of-spec but self-consistent images
TzData synthx_zone(uint64_t seed) {
  Rng r(mix64(seed, 0xeeee));
  TzData d = synth_zone(mix64(seed, 77));
  if (d.version == '\0' && r.chance(0.7)) d.version = '2';
  uint64_t what = r.below(10);
  if (what < 3) {
    // More types than a one-byte index can address.
    size_t n = static_cast<size_t>(r.pick(std::vector<int>{255, 256, 256, 256, 257, 300}));
    int dstmode = static_cast<int>(r.below(4));  // 0: all dst, 1: none, 2: first 256 dst, 3: random
    TzType proto = d.types.empty() ? TzType() : d.types[0];
    d.types.clear();
    for (size_t i = 0; i < n; ++i) {
      TzType t = proto;
      t.utoff = static_cast<int32_t>((static_cast<int64_t>(i) % 90 - 45) * 900);
      t.isdst = dstmode == 0 ? 1 : dstmode == 1 ? 0 : dstmode == 2 ? (i < 256) : r.chance(0.5);
      t.abbrind = static_cast<uint8_t>(r.below(std::max<size_t>(1, d.abbrs.size())));
      d.types.push_back(t);
    }
    if (d.times.empty()) { d.times.push_back(-1000000000); d.idx.push_back(0); }
    for (size_t i = 0; i < d.idx.size(); ++i) d.idx[i] = static_cast<uint8_t>(r.chance(0.5) ? 0 : r.below(256));
    d.isstd.clear(); d.isut.clear();
  } else if (what < 6) {
    // Extreme transition instants.
    static const int64_t ext[] = {INT64_MIN, -(1LL << 62), -(1LL << 59) - 1, -(1LL << 59), -(1LL << 59) + 1, -(1LL << 58),
                                  (1LL << 58), (1LL << 59) - 1, (1LL << 59), (1LL << 59) + 1, (1LL << 62), INT64_MAX};
    size_t n = static_cast<size_t>(r.range(1, 4));
    std::vector<int64_t> ts;
    for (size_t i = 0; i < n; ++i) ts.push_back(ext[r.below(12)]);
    for (int64_t t : d.times) ts.push_back(t);
    std::sort(ts.begin(), ts.end());
    ts.erase(std::unique(ts.begin(), ts.end()), ts.end());
    d.times = ts;
    d.idx.resize(ts.size());
    for (size_t i = 0; i < d.idx.size(); ++i) d.idx[i] = static_cast<uint8_t>(r.below(d.types.size()));
    if (r.chance(0.6)) d.footer = gen_posix_footer(&r, true);
  } else if (what < 8) {
    // Abbreviation table larger than a one-byte index, or without a terminating NUL.
    size_t n = static_cast<size_t>(r.pick(std::vector<int>{255, 256, 257, 600}));
    std::string chars;
    while (chars.size() < n) { chars += "ABCDEFG"; chars.push_back(r.chance(0.8) ? '\0' : 'x'); }
    chars.resize(n);
    if (r.chance(0.5)) chars[n - 1] = 'Z';  // unterminated last abbreviation
    d.abbrs = chars;
    for (TzType& t : d.types) t.abbrind = static_cast<uint8_t>(r.below(std::min<size_t>(256, n)));
    if (r.chance(0.5)) d.footer = gen_posix_footer(&r, true);
  } else {
    // Offsets at the validated bound, close transitions, last transition before 1970 with a DST footer.
    for (TzType& t : d.types) if (r.chance(0.5)) t.utoff = r.chance(0.5) ? 86399 : -86399;
    d.times.clear(); d.idx.clear();
    int64_t t = r.range(-6000000000LL, -3000000000LL);
    size_t n = static_cast<size_t>(r.range(0, 6));
    for (size_t i = 0; i < n; ++i) { d.times.push_back(t); d.idx.push_back(static_cast<uint8_t>(r.below(d.types.size()))); t += r.range(1, 200000); }
    d.footer = gen_posix_footer(&r, true);
  }
  return d;
}

// ------------------------------------------------------------------ storage faults
std::string apply_faults(const std::string& base, const std::vector<ByteFault>& faults, int* noops, std::vector<bool>* applied) {
  std::string b = base;
  for (const ByteFault& f : faults) {
    bool done = false;
    size_t a = f.a < 0 ? 0 : static_cast<size_t>(f.a), len = f.b < 0 ? 0 : static_cast<size_t>(f.b);
    if (f.k == "trunc") { if (a < b.size()) { b.resize(a); done = true; } }
    else if (f.k == "flip") { if (a < b.size() && (f.b & 0xff)) { b[a] = static_cast<char>(b[a] ^ (f.b & 0xff)); done = true; } }
    else if (f.k == "set") { if (a < b.size()) { done = b[a] != static_cast<char>(f.v); b[a] = static_cast<char>(f.v); } }
    else if (f.k == "zero" || f.k == "ff") {
      for (size_t i = a; i < b.size() && i < a + len; ++i) { char nv = f.k == "zero" ? '\0' : '\xff'; if (b[i] != nv) done = true; b[i] = nv; }
    }
    else if (f.k == "splice") {
      std::string o = base_bytes(f.s);
      if (!o.empty()) { std::string n = b.substr(0, std::min(a, b.size())); if (a < o.size()) n += o.substr(a); done = n != b; b = n; }
    }
    else if (f.k == "dupblock") { if (a < b.size() && len) { b.insert(a, b.substr(a, std::min(len, b.size() - a))); done = true; } }
    else if (f.k == "dropblock") { if (a < b.size() && len) { b.erase(a, std::min(len, b.size() - a)); done = true; } }
    else if (f.k == "append") { b.append(f.s); done = !f.s.empty(); }
    else if (f.k == "insert") { if (a <= b.size() && len) { b.insert(a, std::string(std::min<size_t>(len, 4096), static_cast<char>(f.v))); done = true; } }
    else {
      TzLayout L = layout_of(b);
      if (f.k == "hdr") {
        // a: block (0 first header, 1 second), b: field 0..5 in file order (isut,isstd,leap,time,type,char)
        if (b.size() >= 44 && f.b >= 0 && f.b < 6) {
          size_t off = 20 + 4 * static_cast<size_t>(f.b);
          if (f.a == 1) { if (L.hdr2 && L.hdr2 + 44 <= b.size()) off += L.hdr2; else off = 0; }
          if (off) { done = get32(b, off) != static_cast<int32_t>(f.v); put32(&b, off, f.v); }
        }
      } else if (f.k == "version") {
        if (b.size() > 4) { done = true; b[4] = static_cast<char>(f.v); if (L.hdr2 && L.hdr2 + 5 <= b.size() && f.a != 1) b[L.hdr2 + 4] = static_cast<char>(f.v); }
      } else if (L.ok) {
        if (f.k == "typeidx" && a < L.timecnt) { b[L.idx + a] = static_cast<char>(f.v); done = true; }
        else if (f.k == "abbridx" && a < L.typecnt) { b[L.types + 6 * a + 5] = static_cast<char>(f.v); done = true; }
        else if (f.k == "isdst" && a < L.typecnt) { b[L.types + 6 * a + 4] = static_cast<char>(f.v); done = true; }
        else if (f.k == "utoff" && a < L.typecnt) { put32(&b, L.types + 6 * a, f.v); done = true; }
        else if (f.k == "time" && a < L.timecnt) { if (L.time_len == 8) put64(&b, L.times + 8 * a, f.v); else put32(&b, L.times + 4 * a, f.v); done = true; }
        else if (f.k == "footer" && L.version != '\0') { b.resize(L.footer); b.push_back('\n'); b += f.s; if (f.v == 0) b.push_back('\n'); done = true; }
      }
    }
    if (!done && noops) ++*noops;
    if (applied) applied->push_back(done);
  }
  if (b.size() > 65536) b.resize(65536);
  return b;
}

// ------------------------------------------------------------------ generation
namespace {

const std::vector<std::string>& sweep_panel(const std::string& tier) {
  static std::vector<std::string> quick = {
      "shipped:America/New_York", "shipped:Etc/UTC", "shipped:Europe/London", "shipped:Australia/Lord_Howe", "shipped:Asia/Kathmandu",
      "shipped:Africa/Monrovia", "shipped:Pacific/Apia", "shipped:America/Phoenix", "shipped:Asia/Tehran", "shipped:Etc/GMT+12",
      "synth:11", "synth:12"};
  static std::vector<std::string> thorough;
  if (tier != "thorough") return quick;
  if (thorough.empty()) {
    for (const std::string& n : shipped_names()) thorough.push_back("shipped:" + n);
    for (int i = 0; i < 40; ++i) thorough.push_back("synth:" + std::to_string(100 + i));
  }
  return thorough;
}

struct SweepIndex { std::vector<int64_t> cum; int64_t total = 0; };
const SweepIndex& sweep_index(const std::string& part, const std::string& tier) {
  static std::map<std::string, SweepIndex> cache;
  std::string key = part + "/" + tier;
  auto it = cache.find(key);
  if (it != cache.end()) return it->second;
  SweepIndex si;
  for (const std::string& b : sweep_panel(tier)) {
    std::string bytes = base_bytes(b);
    int64_t n;
    if (part == "sweep") n = 2 * static_cast<int64_t>(bytes.size() + 1);       // trunc@k and eio@k for k in 0..size
    else n = 8 * static_cast<int64_t>(bytes.size());   // every bit of the file: both headers, both blocks, indicator bytes and the footer
    si.total += n;
    si.cum.push_back(si.total);
  }
  return cache[key] = si;
}

ByteFault random_fault(Rng* r, const std::string& kind, const std::string& bytes, const TzLayout& L) {
  ByteFault f;
  f.k = kind;
  auto anywhere = [&]() -> int64_t {
    if (bytes.empty()) return 0;
    if (L.ok && r->chance(0.8)) {  // bias into the tables (survivable damage) and, less often, the headers
      static const int regions = 8;
      size_t starts[regions] = {0, L.hdr2, L.times, L.idx, L.types, L.abbrs, L.times, L.types};
      size_t ends[regions] = {44, L.hdr2 + 44, L.idx, L.types, L.abbrs, L.total, L.idx, L.total};
      int g = static_cast<int>(r->below(regions));
      if (ends[g] > starts[g]) return static_cast<int64_t>(starts[g] + r->below(ends[g] - starts[g]));
    }
    return static_cast<int64_t>(r->below(bytes.size()));
  };
  if (kind == "trunc") {
    if (L.ok && r->chance(0.5)) {
      size_t marks[] = {44, L.hdr2, L.hdr2 + 44, L.times, L.idx, L.types, L.abbrs, L.tail, L.footer, L.footer + 1, L.total - 1};
      f.a = static_cast<int64_t>(marks[r->below(11)]) + r->range(-1, 1);
      if (f.a < 0) f.a = 0;
    } else f.a = anywhere();
  } else if (kind == "flip") {
    f.a = anywhere(); f.b = 1 << r->below(8);
    if (r->chance(0.2)) f.b |= 1 << r->below(8);
  } else if (kind == "set") { f.a = anywhere(); f.v = static_cast<int64_t>(r->pick(std::vector<int>{0, 1, 0x7f, 0x80, 0xff, '\n', '<', ','})); }
  else if (kind == "zero" || kind == "ff") { f.a = (anywhere() / 16) * 16; f.b = r->pick(std::vector<int>{4, 16, 64, 512, 4096}); }
  else if (kind == "splice") { f.s = "shipped:" + r->pick(shipped_names()); f.a = r->chance(0.5) ? (anywhere() / 512) * 512 : anywhere(); }
  else if (kind == "dupblock" || kind == "dropblock") { f.a = anywhere(); f.b = r->pick(std::vector<int>{1, 4, 6, 8, 44, 64, 512}); }
  else if (kind == "insert") {
    // extra bytes at a table boundary (as a count edit would need to stay consistent), or anywhere
    if (L.ok && r->chance(0.7)) { size_t marks[] = {L.idx, L.types, L.abbrs, L.tail, L.tail, L.footer}; f.a = static_cast<int64_t>(marks[r->below(6)]); }
    else f.a = anywhere();
    f.b = r->chance(0.5) ? static_cast<int64_t>(std::max<size_t>(1, L.typecnt)) : r->pick(std::vector<int64_t>{1, 2, 6, 8, 12, 64});
    f.v = r->pick(std::vector<int64_t>{0, 0, 1, 0xff, 'A', '\n'});
  }
  else if (kind == "hdr") {
    f.a = static_cast<int64_t>(r->below(2)); f.b = static_cast<int64_t>(r->below(6));
    int64_t orig = 0;
    if (L.total >= 44) { size_t off = 20 + 4 * static_cast<size_t>(f.b) + (f.a == 1 ? L.hdr2 : 0); if (off + 4 <= bytes.size()) orig = get32(bytes, off); }
    static const std::vector<int64_t> vals = {0, 1, 2, 255, 256, 257, 32768, 65536, 2147483647LL, -1, -2147483648LL};
    f.v = r->chance(0.3) ? orig + r->range(-2, 2) : r->pick(vals);
  } else if (kind == "typeidx") {
    f.a = static_cast<int64_t>(r->below(std::max<size_t>(1, L.timecnt))); int64_t tc = static_cast<int64_t>(L.typecnt);
    f.v = r->chance(0.65) ? static_cast<int64_t>(r->below(std::max<size_t>(1, L.typecnt))) : r->pick(std::vector<int64_t>{tc - 1, tc, tc + 1, 255, 1, 128});
  } else if (kind == "abbridx") {
    f.a = static_cast<int64_t>(r->below(std::max<size_t>(1, L.typecnt))); int64_t cc = static_cast<int64_t>(L.charcnt);
    f.v = r->chance(0.65) ? static_cast<int64_t>(r->below(std::max<size_t>(1, std::min<size_t>(L.charcnt, 256)))) : r->pick(std::vector<int64_t>{cc - 1, cc, cc + 1, 255, 1, cc - 2});
  }
  else if (kind == "isdst") { f.a = static_cast<int64_t>(r->below(std::max<size_t>(1, L.typecnt))); f.v = r->chance(0.7) ? static_cast<int64_t>(r->below(2)) : r->pick(std::vector<int64_t>{1, 2, 255, 128}); if (f.v == 0) { f.k = "zero"; f.a = static_cast<int64_t>(L.types + 6 * static_cast<size_t>(f.a) + 4); f.b = 1; } }
  else if (kind == "utoff") {
    f.a = static_cast<int64_t>(r->below(std::max<size_t>(1, L.typecnt)));
    f.v = r->chance(0.6) ? r->pick(std::vector<int64_t>{3600, -3600, 5400, 86399, -86399, 1, -1, 43200, -43200, 37, 50400, -39600})
                         : r->pick(std::vector<int64_t>{86399, 86400, -86399, -86400, 2147483647LL, -2147483648LL, 90000});
  }
  else if (kind == "time") {
    f.a = static_cast<int64_t>(r->below(std::max<size_t>(1, L.timecnt)));
    static const std::vector<int64_t> vals = {INT64_MIN, INT64_MIN + 1, INT64_MAX, INT64_MAX - 1, -(1LL << 59), -(1LL << 59) - 1, -(1LL << 59) + 1, (1LL << 59),
                                              -(1LL << 62), (1LL << 62), -(1LL << 61), (1LL << 61), (1LL << 60), -(1LL << 60), 1, -1, 2147483647LL, 4102444800LL};
    f.v = r->pick(vals);
    if (L.ok && L.timecnt > 0 && L.time_len == 8 && r->chance(0.45)) {  // a plausible edit that keeps the table sorted most of the time
      int64_t orig = get64(bytes, L.times + 8 * static_cast<size_t>(f.a));
      f.v = orig + r->pick(std::vector<int64_t>{1, -1, 3600, -3600, 86400, -86400, 30 * 86400, -30 * 86400});
      if (r->chance(0.2)) f.v = r->pick(std::vector<int64_t>{-(1LL << 59), (1LL << 59), (1LL << 59) - 1, -(1LL << 59) + 1, 0, 2147483647LL});
      if (f.v == 0) f.v = 1;
    } else if (L.ok && r->chance(0.25) && L.timecnt > 1 && L.time_len == 8) {  // duplicate / inversion of a neighbour
      size_t n = static_cast<size_t>(f.a) + 1 < L.timecnt ? static_cast<size_t>(f.a) + 1 : static_cast<size_t>(f.a) - 1;
      f.v = get64(bytes, L.times + 8 * n) + r->range(-1, 1);
      if (f.v == 0) f.v = 1;
    }
  } else if (kind == "version") { f.v = r->pick(std::vector<int64_t>{'2', '3', '4', '5', 0xff, 1, ' '}); if (r->chance(0.3)) { f.v = 0; f.k = "set"; f.a = 4; } }
  else if (kind == "footer") { f.s = gen_posix_footer(r, r->chance(0.7)); f.v = r->chance(0.1) ? 1 : 0; /* v=1: missing final newline */ }
  return f;
}

}  // namespace

int64_t c12_part_size(const std::string& part, const std::string& tier) {
  if (part == "sweep" || part == "flips") return sweep_index(part, tier).total;
  return -1;
}

C12Case gen_c12(const std::string& part, const std::string& tier, uint64_t seed, int64_t idx) {
  C12Case c;
  c.part = part;
  Rng root(mix64(mix64(seed, hash_str("C12" + part)), static_cast<uint64_t>(idx)));
  Rng wl = root.split(1), fl = root.split(2), sc = root.split(3);
  c.sched_seed = sc.next();
  if (part == "sweep" || part == "flips") {
    const SweepIndex& si = sweep_index(part, tier);
    const std::vector<std::string>& panel = sweep_panel(tier);
    size_t bi = static_cast<size_t>(std::upper_bound(si.cum.begin(), si.cum.end(), idx) - si.cum.begin());
    if (bi >= panel.size()) { c.base = panel[0]; return c; }
    int64_t local = idx - (bi ? si.cum[bi - 1] : 0);
    c.base = panel[bi];
    if (part == "sweep") {
      if (local % 2 == 0) { ByteFault f; f.k = "trunc"; f.a = local / 2; c.faults.push_back(f); }
      else c.eio_at = local / 2;
    } else {
      ByteFault f; f.k = "flip"; f.a = local / 8; f.b = 1 << (local % 8); c.faults.push_back(f);
    }
    return c;
  }
  uint64_t pb = wl.below(100);
  if (pb < 55) c.base = "shipped:" + wl.pick(shipped_names());
  else if (pb < 88) c.base = "synth:" + std::to_string(wl.below(100000));
  else c.base = "synthx:" + std::to_string(wl.below(100000));
  std::string bytes = base_bytes(c.base);
  TzLayout L = layout_of(bytes);
  static const std::vector<std::string> kinds = {"trunc", "flip", "flip", "flip", "set", "zero", "ff", "splice", "dupblock", "dropblock", "hdr",
                                                 "typeidx", "typeidx", "abbridx", "abbridx", "isdst", "isdst", "utoff", "utoff", "time", "time", "time", "insert",
                                                 "version", "footer", "footer", "footer", "footer"};
  // Swarm: a random subset of fault kinds is enabled in this run.
  std::vector<std::string> enabled;
  size_t nen = static_cast<size_t>(fl.range(1, 4));
  for (size_t i = 0; i < nen; ++i) enabled.push_back(fl.pick(kinds));
  int nf = static_cast<int>(fl.range(1, 3));
  if (fl.chance(c.base.compare(0, 6, "synthx") == 0 ? 0.5 : 0.04)) nf = 0;
  for (int i = 0; i < nf; ++i) {
    ByteFault f = random_fault(&fl, fl.pick(enabled), bytes, L);
    c.faults.push_back(f);
  }
  if (L.ok && L.version != '\0' && fl.chance(0.04)) {
    // A *consistent* edit of the indicator arrays: set ttisutcnt and/or ttisstdcnt to typecnt (or 0) and add or remove the bytes.
    c.faults.clear();
    int64_t tc = static_cast<int64_t>(L.typecnt);
    int shape = static_cast<int>(fl.below(3));   // 0: ut-only, 1: std-only, 2: both
    int64_t have_ut = get32(bytes, L.counts2[0]), have_std = get32(bytes, L.counts2[1]);
    ByteFault drop; drop.k = "dropblock"; drop.a = static_cast<int64_t>(L.tail); drop.b = have_ut + have_std;
    if (drop.b > 0) c.faults.push_back(drop);
    int64_t want_ut = shape != 1 ? tc : 0, want_std = shape != 0 ? tc : 0;
    ByteFault ins; ins.k = "insert"; ins.a = static_cast<int64_t>(L.tail); ins.b = want_ut + want_std; ins.v = fl.pick(std::vector<int64_t>{0, 0, 1});
    if (ins.b > 0) c.faults.push_back(ins);
    ByteFault h1; h1.k = "hdr"; h1.a = 1; h1.b = 0; h1.v = want_ut; c.faults.push_back(h1);
    ByteFault h2; h2.k = "hdr"; h2.a = 1; h2.b = 1; h2.v = want_std; c.faults.push_back(h2);
  }
  if (fl.chance(0.08)) c.eio_at = static_cast<int64_t>(fl.below(bytes.size() + 1));
  if (fl.chance(0.08)) c.short_at = static_cast<int64_t>(fl.below(bytes.size() + 1));
  if (fl.chance(0.15)) c.skip_mode = static_cast<int>(fl.range(1, 3));
  c.bystander = wl.chance(0.1);
  if (wl.chance(0.1)) c.preload = static_cast<int>(wl.range(1, 3));
  c.heap_budget_mib = wl.chance(0.2) ? 64 : 8;
  // The outcome is a function of the bytes alone - so it is also the same when the built-in file source delivers them.
  if (c.eio_at < 0 && c.short_at < 0 && c.skip_mode != 1 && wl.chance(0.35)) {
    c.via_file = true;
    c.file_chunk = static_cast<int>(wl.pick(std::vector<int>{1, 7, 64, 1000, 1024, 4096, 4096, 65536}));
  }
  return c;
}

// ------------------------------------------------------------------ execution
namespace {

uint64_t g_exec = 0;

__attribute__((noinline)) void paint_stack(int byte) {
  volatile char buf[40 * 1024];
  for (size_t i = 0; i < sizeof buf; ++i) buf[i] = static_cast<char>(byte);
  __asm__ volatile("" ::: "memory");
}

void perturb_heap(int v) {
#if !defined(SIM_ASAN) && !defined(SIM_TSAN)
  mallopt(M_PERTURB, v);
#else
  (void)v;
#endif
}

struct Attempt {
  bool ok = false, skipped = false;
  uint64_t digest = 0;
  int nqueries = 0;
  std::string fallback_problem;
  std::vector<std::string> answers;  // kept only when logging
  std::vector<uint64_t> ans;         // per panel query: hash of the rendered answer (and of the chain it starts)
};

std::vector<Query> build_panel(const std::string& bytes) {
  std::vector<Query> qs;
  ZoneShape sh = shape_of(bytes);
  auto tp = [&](int64_t t) { Query q; q.k = Q_LOOKUP_TP; q.a = t; qs.push_back(q); };
  auto cs = [&](int64_t local) {
    Civil c = civil_from_unix(local);
    Query q; q.k = Q_LOOKUP_CS; q.a = c.y; q.b = pack_civil(c.m, c.d, c.hh, c.mm, c.ss); qs.push_back(q);
  };
  static const int64_t fixed[] = {INT64_MIN, INT64_MIN + 1, -(1LL << 59) - 1, -(1LL << 59), -(1LL << 59) + 1, -1, 0, 1, 2147483647LL, 2147483648LL,
                                  4102444800LL, 1LL << 59, INT64_MAX - 1, INT64_MAX, 1420070400LL, 32503680000LL};
  for (int64_t t : fixed) tp(t);
  size_t n = sh.times.size();
  size_t stride = n > 24 ? n / 24 : 1;
  for (size_t i = 0; i < n; i += stride) {
    int64_t t = sh.times[i];
    for (int d : {-1, 0, 1}) if (!((d < 0 && t == INT64_MIN) || (d > 0 && t == INT64_MAX))) tp(t + d);
    if (t > INT64_MIN + 400000 && t < INT64_MAX - 400000) {
      for (int32_t off : {sh.offs_before[i], sh.offs_after[i]}) for (int d : {-1, 0, 1}) cs(t + off + d);
    }
  }
  if (n) {
    int64_t last = sh.times[n - 1];
    if (last < (1LL << 58) && last > -(1LL << 58)) {
      for (int64_t y : std::vector<int64_t>{1, 2, 399, 400, 401, 402, 800, 1201}) {
        tp(last + y * 31556952LL);
        tp(last + y * 31556952LL + 15778476LL);
        cs(last + y * 31556952LL);
      }
    }
  }
  // A DST footer repeats every year: walk two years after the end of the stored table in month steps, and
  // the turn of each year in 12-hour steps (where rules with large or negative times cross each other).
  if (sh.has_dst_footer && sh.last < (1LL << 58) && sh.last > -(1LL << 58)) {
    Civil lc = civil_from_unix(sh.last);
    for (int m = 0; m < 26; ++m) tp(sh.last + m * 2629746LL);
    for (int64_t y = lc.y + 1; y <= lc.y + 3; ++y) {
      // 00:00 UTC on 1 January of year y, from our own calendar arithmetic
      int64_t days = 0;
      { int64_t yy = y - 1; days = 365 * (y - 1970) + ((yy / 4 - yy / 100 + yy / 400) - (1969 / 4 - 1969 / 100 + 1969 / 400)); }
      int64_t jan1 = days * 86400;
      for (int h = -8; h <= 14; ++h) { tp(jan1 + h * 43200LL); if (h % 4 == 0) cs(jan1 + h * 43200LL); }
    }
  }
  // Civil extremes.
  {
    Query q; q.k = Q_LOOKUP_CS;
    q.a = INT64_MIN; q.b = pack_civil(1, 1, 0, 0, 0); qs.push_back(q);
    q.a = INT64_MAX; q.b = pack_civil(12, 31, 23, 59, 59); qs.push_back(q);
    for (int64_t y : std::vector<int64_t>{-1000000000LL, 1000000000LL, -100000000000LL, 100000000000LL, -292277022657LL, 292277026596LL, 0, 1, 1969, 1970, 2037, 2038}) {
      q.a = y; q.b = pack_civil(6, 15, 12, 0, 0); qs.push_back(q);
      q.b = pack_civil(1, 1, 0, 0, 0); qs.push_back(q);
    }
  }
  // Transition chains from both ends (the executor follows them), format/parse, metadata.
  { Query q; q.k = Q_NEXT; q.a = INT64_MIN; qs.push_back(q); q.k = Q_PREV; q.a = INT64_MAX; qs.push_back(q); }
  for (size_t i = 0; i < n; i += std::max<size_t>(1, n / 8)) { Query q; q.k = Q_NEXT; q.a = sh.times[i] - (sh.times[i] > INT64_MIN); qs.push_back(q); q.k = Q_PREV; q.a = sh.times[i]; qs.push_back(q); }
  for (int64_t t : std::vector<int64_t>{0, 2147483647LL, -5000000000LL, 32503680000LL, INT64_MAX, INT64_MIN}) { Query q; q.k = Q_FORMAT; q.a = t; q.fmt = 2; qs.push_back(q); q.fmt = 0; qs.push_back(q); }
  { Query q; q.k = Q_PARSE; q.fmt = 1; q.s = "2024-03-10 02:30:00"; qs.push_back(q); q.s = "1970-01-01 00:00:00"; qs.push_back(q); q.s = "2500-07-01 12:00:00"; qs.push_back(q); }
  { Query q; q.k = Q_DESC; qs.push_back(q); q.k = Q_VERSION; qs.push_back(q); }
  if (qs.size() > 400) qs.resize(400);
  return qs;
}

}  // namespace

Outcome exec_c12(const C12Case& c, bool keep_log, Stats* stats) {
  Outcome out;
  clear_zone_cache();
  char sb[32];
  snprintf(sb, sizeof sb, "@%llu@", static_cast<unsigned long long>(++g_exec));
  const std::string salt = sb;
  int noops = 0;
  std::string basebytes = base_bytes(c.base);
  std::vector<bool> applied;
  const std::string bytes = apply_faults(basebytes, c.faults, &noops, &applied);
  std::map<std::string, CatEntry> cat;
  const std::string n1 = "sim/" + salt + "/Z", n2 = "sim/" + salt + "/Z2", nb = "sim/" + salt + "/bystander";
  for (const std::string& n : {n1, n2}) {
    CatEntry& e = cat[n];
    e.kind = CatEntry::BYTES; e.bytes = bytes; e.eio_at = c.eio_at; e.short_at = c.short_at; e.skip_mode = c.skip_mode;
  }
  { CatEntry& e = cat[nb]; e.kind = CatEntry::BYTES; e.bytes = shipped_bytes("America/New_York"); }
  const std::string nf = "sim/" + salt + "/F";
  if (c.via_file) cat[nf].kind = CatEntry::FALLTHROUGH;
  const std::string nd = "sim/" + salt + "/decoy";
  {
    CatEntry& e = cat[nd];
    e.kind = CatEntry::BYTES;
    switch (c.sched_seed % 7) {
      case 5: case 6: {   // healthy data, but a footer that is rejected only near its end (the rule parser has already run)
        std::vector<ByteFault> ff(1);
        ff[0].k = "footer";
        ff[0].s = (c.sched_seed % 7 == 5) ? "EST5EDT,M4.1.0,M10.5.0," : "<+0330>-3:30<+0430>,J79/24,J263/2x";
        e.bytes = apply_faults(shipped_bytes(c.sched_seed % 14 < 7 ? "America/New_York" : "Asia/Tehran"), ff, nullptr);
        break;
      }
      case 0: e.bytes = shipped_bytes("Australia/Lord_Howe"); break;
      case 1: e.bytes = base_bytes("synth:77"); break;
      case 2: e.bytes = shipped_bytes("America/New_York"); e.bytes.resize(e.bytes.size() - 40); break;            // rejected inside the footer
      case 3: e.bytes = shipped_bytes("Europe/London"); e.bytes[e.bytes.size() / 2] = '\xff'; break;                // damaged half-way
      default: e.bytes = base_bytes("synthx:4242"); break;
    }
  }
  for (int i = 0; i < c.preload; ++i) { CatEntry& e = cat["sim/" + salt + "/pre" + std::to_string(i)]; e.kind = CatEntry::BYTES; e.bytes = shipped_bytes(i % 2 ? "Europe/London" : "Asia/Tokyo"); }
  env_reset(); fs_reset();
  env.active = true; fs.active = true;
  if (c.via_file) { FsNode& n = fs.nodes["/usr/share/zoneinfo/" + nf]; n.kind = FsNode::REG; n.bytes = bytes; fs.chunk = static_cast<size_t>(c.file_chunk > 0 ? c.file_chunk : 4096); }
  factory_reset(&cat, c.bystander ? 2 : 1);
  fac.factory_yields = 0;
  fac.read_call_cap = 4 * static_cast<int64_t>(bytes.size()) + 4096;

  std::vector<std::string> log;
  uint64_t log_hash = 0x12;
  auto ev = [&](const std::string& s) { std::string line = strip_salt(s, salt); log_hash = hash_str(line, log_hash); if (keep_log) log.push_back(line); };
  const std::vector<Query> panel = build_panel(bytes);
  const cctz::time_zone utc = cctz::utc_time_zone();
  Attempt att[3];
  int64_t peak_request = 0;

  // The data length the header(s) declare (what the loader will ask the allocator for), by our own arithmetic.
  int64_t declared_alloc = 0;
  {
    auto datalen = [&](size_t h, int64_t tl) -> int64_t {
      if (bytes.size() < h + 44) return -1;
      int64_t cnt[6];
      for (int i = 0; i < 6; ++i) { cnt[i] = get32(bytes, h + 20 + 4 * static_cast<size_t>(i)); if (cnt[i] < 0) return -1; }
      return cnt[3] * (tl + 1) + cnt[4] * 6 + cnt[5] + cnt[2] * (tl + 4) + cnt[1] + cnt[0];
    };
    int64_t l1 = datalen(0, 4);
    if (l1 >= 0 && bytes[4] == '\0') declared_alloc = l1;                       // version 1: the 32-bit block is what gets decoded
    else if (l1 >= 0 && static_cast<uint64_t>(l1) < bytes.size()) {              // version 2+: the 32-bit block is skipped, the 64-bit one allocated
      int64_t l2 = datalen(44 + static_cast<size_t>(l1), 8);
      if (l2 > 0) declared_alloc = l2;
    }
  }

  auto attempt = [&](const std::string& name, Attempt* a, int which) {
    cctz::time_zone tz;
    heap_set_budget(static_cast<int64_t>(c.heap_budget_mib) << 20);
    set_phase("load");
    // "A function of the bytes alone": each of the (up to three) loads happens at a different simulated date.
    static const int64_t kNow[3] = {1790000000LL /* 2026-09 */, 1790000000LL + 1647LL * 86400 /* 2031-03 */, 883612800LL + 200LL * 86400 /* 1998-07 */};
    clk.active = true; clk.now = kNow[which % 3] + static_cast<int64_t>(c.sched_seed % 1000) * 86400;
    ctypes.mode = which == 1 ? 1 : 0;   // ... and the second one under a different character classification (a non-C locale)
    struct CtypeOff { ~CtypeOff() { ctypes.mode = 0; } } ctype_off;
    if (RUNNING_ON_VALGRIND && declared_alloc > (static_cast<int64_t>(c.heap_budget_mib) << 20)) {
      // memcheck replaces operator new itself, so the budget above is not enforced there; apply the memory proviso up front
      a->skipped = true;
      heap_set_budget(0);
      ev("load#" + std::to_string(which) + " skipped: allocation above the heap budget (memory proviso, decided from the header under valgrind)");
      return;
    }
    try {
      LibraryScope ls;
      a->ok = cctz::load_time_zone(name, &tz);
    } catch (const std::bad_alloc&) {
      a->skipped = true;
    }
    peak_request = std::max(peak_request, heap_peak_request());
    heap_set_budget(0);
    if (a->skipped) { ev("load#" + std::to_string(which) + " skipped: allocation above the heap budget (memory proviso)"); return; }
    ev(std::string("load#") + std::to_string(which) + " -> " + (a->ok ? "true" : "false") + " name=" + tz.name());
    if (!a->ok) {
      if (!(tz == utc)) a->fallback_problem = "load_time_zone returned false but the result is not UTC (name()=" + tz.name() + ")";
      else if (tz.name() != "UTC") a->fallback_problem = "failed load left a zone whose name() is " + tz.name();
    } else if (tz.name() != name) a->fallback_problem = "successful load reports name() " + tz.name();
    uint64_t d = a->ok ? 0xa11 : 0xbad;
    if (a->ok) {
      set_phase("query");
      LibraryScope ls;
      // The second attempt asks the same panel in reverse order: on a zone the loader accepted, every
      // answer must be a function of the bytes and the question alone, not of what was asked before.
      a->ans.assign(panel.size(), 0);
      for (size_t step = 0; step < panel.size(); ++step) {
        const size_t qi = which != 1 ? step : panel.size() - 1 - step;
        const Query& q = panel[qi];
        std::string r = run_query(tz, q);
        uint64_t h = hash_str(r, mix64(0x51, q.k));
        a->nqueries++;
        if (keep_log) { if (a->answers.size() < panel.size()) a->answers.resize(panel.size()); a->answers[qi] = query_text(q) + " = " + r; }
        if (q.k == Q_NEXT || q.k == Q_PREV) {
          // Follow the chain (bounded).
          Query cq = q;
          for (int hop = 0; hop < 40; ++hop) {
            cctz::time_zone::civil_transition tr;
            bool ok2 = cq.k == Q_NEXT ? tz.next_transition(tp_of(cq.a), &tr) : tz.prev_transition(tp_of(cq.a), &tr);
            if (!ok2) break;
            const cctz::time_zone::civil_lookup cl = tz.lookup(tr.to);
            int64_t t = cl.trans.time_since_epoch().count();
            if (cq.k == Q_PREV) { const cctz::time_zone::civil_lookup cl2 = tz.lookup(tr.from); t = std::min(t, static_cast<int64_t>(cl2.trans.time_since_epoch().count())); }
            char bb[64]; snprintf(bb, sizeof bb, "%" PRId64, t);
            h = hash_str(bb, strlen(bb), h);
            if (cq.k == Q_NEXT) { if (t <= cq.a) break; cq.a = t; } else { if (t >= cq.a) { if (cq.a == INT64_MIN) break; cq.a -= 1; } else cq.a = t; }
            a->nqueries++;
          }
        }
        a->ans[qi] = h;
      }
      for (uint64_t h : a->ans) d = mix64(d, h);
      set_phase("tasks");
    }
    a->digest = d;
  };

  // Tags: input preconditions that known-findings entries may name.
  std::vector<std::string> tags;
  {
    TzData d; TzLayout L;
    if (parse_tzif(bytes, &d, &L)) {
      bool extreme = false;
      for (int64_t t : d.times) if (t >= (1LL << 61) || t <= -(1LL << 61)) extreme = true;
      if (extreme) tags.push_back("stored-transition-beyond-2^61");
      if (!d.times.empty() && d.times.back() < 0 && d.footer.find(',') != std::string::npos) tags.push_back("dst-footer-after-pre-1970-last-transition");
      if (L.typecnt > 256) tags.push_back("typecnt>256");
      if (L.charcnt > 256) tags.push_back("charcnt>256");
    }
  }
  { std::string ts; for (auto& t : tags) ts += (ts.empty() ? "" : " ") + t; snprintf(rt.tags, sizeof rt.tags, "%s", ts.c_str()); }

  std::vector<std::function<void()>> bodies;
  bodies.push_back([&] {
    for (int i = 0; i < c.preload; ++i) { cctz::time_zone tz; LibraryScope ls; cctz::load_time_zone("sim/" + salt + "/pre" + std::to_string(i), &tz); (void)tz.lookup(tp_of(1700000000 + i)); }
    // Fresh heap memory is filled (g++ builds, M_PERTURB) with a byte a parser might care about, a
    // different one for each of the two attempts: an uninitialised read then changes the outcome.
    static const unsigned char kFill[] = {0x0a, 0x00, 0x30, 0x41, 0x2c, 0xff, 0x3c, 0x3e, 0x80, 0x01, 0x2f, 0x4d};
    const size_t f1 = static_cast<size_t>(c.sched_seed % 12), f2 = (f1 + 1 + static_cast<size_t>((c.sched_seed / 12) % 11)) % 12;
    // Ambient C state must not matter either: the two attempts start with different errno values.
    static const int kErrno[] = {0, ERANGE, EINVAL, EDOM, ENOMEM, EINTR, EOVERFLOW, EILSEQ};
    paint_stack(kFill[f1]); perturb_heap(0xff ^ kFill[f1]);
    errno = kErrno[f1 % 8];
    attempt(n1, &att[0], 0);
    sim::yield(Y_OP);
    // A decoy load between the two attempts: if anything of a previously loaded (or half-loaded and
    // rejected) zone survives into the next load, the second attempt sees different leftovers than the first.
    { cctz::time_zone dz; LibraryScope ls; cctz::load_time_zone(nd, &dz); if (!(dz == utc)) (void)dz.lookup(tp_of(1600000000)); }
    paint_stack(kFill[f2]); perturb_heap(0xff ^ kFill[f2]);
    errno = kErrno[(f1 % 8 + 1 + (c.sched_seed / 144) % 7) % 8];
    attempt(n2, &att[1], 1);
    if (c.via_file) { NoYield ny; attempt(nf, &att[2], 2); }
    perturb_heap(0);
  });
  if (c.bystander) bodies.push_back([&] {
    cctz::time_zone tz;
    { LibraryScope ls; cctz::load_time_zone(nb, &tz); }
    for (int i = 0; i < 12; ++i) { { LibraryScope ls; (void)tz.lookup(tp_of(1000000000LL + i * 20000000LL)); } sim::yield(Y_OP); }
  });
  SchedConfig cfg;
  cfg.seed = c.sched_seed;
  cfg.chooser = c.explicit_schedule ? CH_EXPLICIT : (c.bystander ? CH_UNIFORM : CH_SEQUENTIAL);
  cfg.schedule = c.schedule;
  cfg.step_cap = static_cast<int>(6 * bytes.size() + 20000);   // a compliant loader makes O(size) stream calls
  set_phase("tasks");
  SchedResult sr = run_tasks(bodies, cfg);
  set_phase("oracle");
  out.trace_hash = sr.trace_hash;
  out.schedule = sr.schedule;
  out.steps = sr.steps;

  auto viol = [&](const std::string& cls, const std::string& site, const std::string& detail) {
    Violation v; v.cls = cls; v.site = strip_salt(site, salt); v.detail = strip_salt(detail, salt); v.tags = tags;
    out.violations.push_back(v);
  };
  if (sr.deadlock) { viol("deadlock", "tasks blocked", sr.deadlock_info); out.poisoned = true; }
  if (sr.steps_exceeded) { viol("hang@load", "step cap reached (the loader keeps asking the stream for data)", ""); out.poisoned = true; }
  if (fac.read_storm && !sr.steps_exceeded) viol("hang@load", "Read/Skip call storm: more than 4*size+4096 stream calls for one load", "size=" + std::to_string(bytes.size()));
  for (int i = 0; i < 2; ++i) if (!att[i].fallback_problem.empty()) viol("c12:fallback", att[i].fallback_problem, "load #" + std::to_string(i));
  if (!att[0].skipped && !att[1].skipped) {
    if (att[0].ok != att[1].ok) viol("c12:nondeterminism(inproc)", "two loads of the same bytes disagree on success", std::string(att[0].ok ? "true" : "false") + " then " + (att[1].ok ? "true" : "false"));
    else if (att[0].digest != att[1].digest) {
      size_t qi = 0;
      while (qi < panel.size() && qi < att[0].ans.size() && qi < att[1].ans.size() && att[0].ans[qi] == att[1].ans[qi]) ++qi;
      viol("c12:nondeterminism(inproc)", "two loads of the same bytes answer the same question differently (second copy asked in reverse order)",
           (qi < panel.size() ? query_text(panel[qi]) : std::string("?")) + ": " + hex64(att[0].digest) + " vs " + hex64(att[1].digest));
    }
  }
  if (c.via_file && !att[0].skipped && !att[2].skipped) {
    if (!att[2].fallback_problem.empty()) viol("c12:fallback", att[2].fallback_problem, "load through the built-in file source");
    if (att[0].ok != att[2].ok) viol("c12:nondeterminism(source)", "the same bytes load through one ZoneInfoSource and are rejected through another",
                                     std::string("custom source: ") + (att[0].ok ? "true" : "false") + ", built-in file source (reads of up to " + std::to_string(c.file_chunk) + " bytes): " + (att[2].ok ? "true" : "false"));
    else if (att[0].digest != att[2].digest) {
      size_t qi = 0;
      while (qi < panel.size() && qi < att[0].ans.size() && qi < att[2].ans.size() && att[0].ans[qi] == att[2].ans[qi]) ++qi;
      viol("c12:nondeterminism(source)", "the same bytes answer differently when the built-in file source delivers them", qi < panel.size() ? query_text(panel[qi]) : std::string("?"));
    }
  }
  for (const UbReport& u : rt.ub) {
    std::string fn = symbolize_fn(u.pc);
    size_t sl = u.file.rfind('/');
    viol("ubsan:" + u.kind + "@" + fn, (sl == std::string::npos ? u.file : u.file.substr(sl + 1)) + ":" + std::to_string(u.line), "");
  }
  finalize_races();
  for (const RaceReport& r : rt.races) viol(std::string(r.cctz_frame ? "race@" : "machinery:tsan@") + (r.fn0.empty() ? r.fn1 : r.fn0), r.desc, r.stack0 + " || " + r.stack1);

  bool changed = bytes != basebytes;
  bool stream_fired = !rt.faults_fired.empty();
  out.nontrivial = changed || stream_fired || c.base.compare(0, 6, "synthx") == 0;
  out.distinct_key = mix64(hash_str(bytes), static_cast<uint64_t>(c.eio_at * 31 + c.short_at * 7 + c.skip_mode));
  out.digest = att[0].skipped ? 0x5111 : mix64(att[0].digest, att[0].ok);
  out.log_hash = mix64(mix64(log_hash, out.digest), att[1].digest);
  if (keep_log) {
    out.log = log;
    out.log.push_back("bytes=" + std::to_string(bytes.size()) + " base=" + c.base + " tags=" + [&] { std::string s; for (auto& t : tags) s += t + " "; return s; }());
    for (size_t i = 0; i < att[0].answers.size() && i < 60; ++i) out.log.push_back(att[0].answers[i] + ((i < att[1].answers.size() && att[1].answers[i] != att[0].answers[i]) ? "   <-- asked in reverse order: " + att[1].answers[i] : ""));
  }
  if (stats) {
    stats->add("steps", sr.steps);
    if (att[0].skipped) stats->add("probe.skipped_memory_proviso");
    else if (att[0].ok) { stats->add(changed || stream_fired ? "probe.loaded_after_fault" : "probe.loaded_pristine"); stats->add("panel_queries", att[0].nqueries + att[1].nqueries); }
    else stats->add("probe.rejected");
    if (noops) stats->add("fault_noop", noops);
    for (size_t i = 0; i < c.faults.size(); ++i) stats->add((i < applied.size() && applied[i] ? "fault." : "fault_configured_but_noop.") + c.faults[i].k);  // fired = actually changed the image
    if (c.faults.size() == 1 && c.eio_at < 0 && c.short_at < 0 && c.skip_mode == 0 && !att[0].skipped)
      stats->add("single." + c.faults[0].k + (att[0].ok ? ".loaded" : ".rejected"));
    if (c.faults.empty() && !att[0].skipped) stats->add("single.none." + c.base.substr(0, c.base.find(':')) + (att[0].ok ? ".loaded" : ".rejected"));
    for (auto& kv : rt.faults_fired) stats->add("fault." + kv.first, kv.second);
    for (auto& kv : rt.probes) stats->add("probe." + kv.first, kv.second);
    for (const std::string& t : tags) stats->add("probe.tag:" + t);
    if (c.bystander) stats->add("probe.bystander");
    if (clk.reads) stats->add("probe.library_read_the_clock", clk.reads);
    if (ctypes.calls) stats->add("probe.library_classified_characters_under_foreign_locale", ctypes.calls);
    if (c.via_file && !att[2].skipped) stats->add(att[2].ok ? "probe.file_source_load_accepted" : "probe.file_source_load_rejected");
    stats->add("base." + c.base.substr(0, c.base.find(':')));
  }
  rt.faults_fired.clear(); rt.probes.clear();
  fac.catalogue = nullptr;
  fac.read_call_cap = 0;
  env.active = false; fs.active = false;
  return out;
}

}  // namespace sim
