#include "premain.h"

#include <errno.h>
#include <fcntl.h>
#include <sys/syscall.h>
#include <unistd.h>
#include <stdlib.h>
#include <string.h>

#include <stdint.h>

#include <string>

#include "cctz/time_zone.h"
#include "tzif.h"

// A tuning knob of the C++ runtime that correctness must not depend on: the quality of std::hash.  libstdc++'s
// hash of strings (and of every other byte range) is std::_Hash_bytes, an ordinary exported function, so the
// definition below - in the executable - is the one the whole process uses.  Processes started with --weak-hash
// get a hash with three values (everything collides; unordered containers still work, only slowly); all others
// get 64-bit FNV-1a.  The choice is made once, at the first call, from the process's own command line, and never
// changes afterwards (containers are laid out by it).
namespace std {
size_t _Hash_bytes(const void* ptr, size_t len, size_t seed) {
  static const int weak = [] {
    // (plain system calls: the first call may come from inside a run, where fopen is the simulated file system's)
    char buf[8192];
    size_t n = 0;
    { int fd = static_cast<int>(syscall(SYS_openat, AT_FDCWD, "/proc/self/cmdline", O_RDONLY)); if (fd >= 0) { ssize_t r = read(fd, buf, sizeof buf - 1); if (r > 0) n = static_cast<size_t>(r); close(fd); } }
    buf[n] = '\0';
    const char* args[64];
    int na = 0;
    for (size_t i = 0; i < n && na < 64; i += strlen(buf + i) + 1) { args[na++] = buf + i; if (strcmp(buf + i, "--weak-hash") == 0) return 1; }
    if (na >= 3 && strcmp(args[1], "replay") == 0) {   // a replay file says which hash its violation was found with
      int fd = static_cast<int>(syscall(SYS_openat, AT_FDCWD, args[2], O_RDONLY));
      if (fd >= 0) {
        static char text[1 << 18];
        size_t m = 0;
        for (;;) { ssize_t r = read(fd, text + m, sizeof text - 1 - m); if (r <= 0) break; m += static_cast<size_t>(r); if (m >= sizeof text - 1) break; }
        close(fd);
        text[m] = '\0';
        if (strstr(text, "\"weak_hash\":true") || strstr(text, "\"weak_hash\": true")) return 1;
      }
    }
    return 0;
  }();
  const unsigned char* p = static_cast<const unsigned char*>(ptr);
  if (weak) return (len + (len ? p[len - 1] : 0)) % 3;
  uint64_t h = 1469598103934665603ULL ^ seed;
  for (size_t i = 0; i < len; ++i) { h ^= p[i]; h *= 1099511628211ULL; }
  return static_cast<size_t>(h);
}
}  // namespace std

namespace sim {

PremainState g_premain;   // zero-initialised

namespace {

const char* const kTzdir[] = {nullptr, "", "/sim/zi", "/sim/missing"};
const char* const kTz[] = {nullptr, "PreMain", ":PreMain", "localtime"};
const char* const kOps[kPremainOps] = {"load:PreMain", "load:/abs/PreMain", "load:file:PreMain", "load:Fixed/UTC+01:00:00", "local", "default"};

struct File { const char* path; int marker; };
const File kFiles[] = {{"/usr/share/zoneinfo/PreMain", 777}, {"/sim/zi/PreMain", 778}, {"/abs/PreMain", 779}, {"/etc/localtime", 780}};

struct Cookie { std::string bytes; size_t pos; };
ssize_t ck_read(void* c, char* buf, size_t n) {
  Cookie* k = static_cast<Cookie*>(c);
  size_t left = k->bytes.size() - k->pos;
  if (n > left) n = left;
  if (n > 37) n = 37;   // short reads are legal
  memcpy(buf, k->bytes.data() + k->pos, n);
  k->pos += n;
  return static_cast<ssize_t>(n);
}
int ck_seek(void* c, off64_t* off, int whence) {
  Cookie* k = static_cast<Cookie*>(c);
  off64_t base = whence == SEEK_SET ? 0 : (whence == SEEK_CUR ? static_cast<off64_t>(k->pos) : static_cast<off64_t>(k->bytes.size()));
  off64_t np = base + *off;
  if (np < 0) return -1;
  k->pos = static_cast<size_t>(np) > k->bytes.size() ? k->bytes.size() : static_cast<size_t>(np);
  *off = np;
  return 0;
}
int ck_close(void* c) { delete static_cast<Cookie*>(c); return 0; }

}  // namespace

const char* premain_op_text(int i) { return (i >= 0 && i < kPremainOps) ? kOps[i] : "?"; }
int premain_worlds() { return 16; }
void premain_env(int world, const char** tzdir, const char** tz) { *tzdir = kTzdir[world % 4]; *tz = kTz[(world / 4) % 4]; }

char* premain_getenv(const char* name) {
  const char *tzdir, *tz;
  premain_env(g_premain.world, &tzdir, &tz);
  if (strcmp(name, "TZDIR") == 0) return const_cast<char*>(tzdir);
  if (strcmp(name, "TZ") == 0) return const_cast<char*>(tz);
  return nullptr;   // LOCALTIME and everything else: unset
}

bool premain_exists(const char* path, bool* is_dir) {
  *is_dir = false;
  size_t n = strlen(path);
  while (n > 1 && path[n - 1] == '/') --n;
  for (const File& f : kFiles) {
    if (strlen(f.path) == n && strncmp(f.path, path, n) == 0) return true;
    if (strlen(f.path) > n && strncmp(f.path, path, n) == 0 && (f.path[n] == '/' || n == 1)) { *is_dir = true; return true; }
  }
  return false;
}

FILE* premain_fopen(const char* path) {
  g_premain.fopen_calls++;
  for (const File& f : kFiles) {
    if (strcmp(path, f.path) != 0) continue;
    char abbr[16];
    snprintf(abbr, sizeof abbr, "P%04d", f.marker);
    Cookie* k = new Cookie;
    k->bytes = write_tzif(marker_zone(abbr, f.marker * 60, '2'));
    k->pos = 0;
    cookie_io_functions_t io = {ck_read, nullptr, ck_seek, ck_close};
    FILE* fp = fopencookie(k, "rb", io);
    if (!fp) delete k;
    return fp;
  }
  errno = ENOENT;
  return nullptr;
}

namespace {

struct PremainProbe {
  PremainProbe() {
    // Which world?  "simzone worker ... --part premain --start N ..." or "simzone replay <file>" with "premain_world": N in it.
    char buf[8192];
    size_t n = 0;
    if (FILE* f = fopen("/proc/self/cmdline", "rb")) { n = fread(buf, 1, sizeof buf - 1, f); fclose(f); }
    buf[n] = '\0';
    const char* args[64];
    int na = 0;
    for (size_t i = 0; i < n && na < 64; i += strlen(buf + i) + 1) args[na++] = buf + i;
    int world = -1;
    bool premain_part = false;
    long start = -1;
    for (int i = 1; i + 1 < na; ++i) {
      if (strcmp(args[i], "--part") == 0 && strcmp(args[i + 1], "premain") == 0) premain_part = true;
      if (strcmp(args[i], "--start") == 0) start = atol(args[i + 1]);
    }
    if (premain_part && start >= 0) world = static_cast<int>(start % premain_worlds());
    if (world < 0 && na >= 3 && strcmp(args[1], "replay") == 0) {
      if (FILE* f = fopen(args[2], "rb")) {
        static char text[1 << 16];
        size_t m = fread(text, 1, sizeof text - 1, f);
        fclose(f);
        text[m] = '\0';
        if (const char* p = strstr(text, "\"premain_world\":")) { int w = atoi(p + 16); if (w >= 0) world = w % premain_worlds(); }
      }
    }
    if (world < 0) return;
    g_premain.world = world;
    g_premain.active = 1;
    {
      const cctz::time_zone utc = cctz::utc_time_zone();
      for (int i = 0; i < kPremainOps; ++i) {
        PremainOp& r = g_premain.r[i];
        cctz::time_zone tz;
        const char* op = kOps[i];
        if (strncmp(op, "load:", 5) == 0) r.ok = cctz::load_time_zone(op + 5, &tz) ? 1 : 0;
        else if (strcmp(op, "local") == 0) { tz = cctz::local_time_zone(); r.ok = 1; }
        else r.ok = 1;
        snprintf(r.name, sizeof r.name, "%s", tz.name().c_str());
        r.is_utc = (tz == utc) ? 1 : 0;
        const cctz::time_zone::absolute_lookup al = tz.lookup(cctz::time_point<cctz::seconds>(cctz::seconds(86400)));
        snprintf(r.abbr, sizeof r.abbr, "%s", al.abbr ? al.abbr : "");
        r.off = al.offset;
      }
    }
    g_premain.active = 0;
    g_premain.ran = 1;
  }
};

__attribute__((init_priority(101))) PremainProbe g_premain_probe;

}  // namespace
}  // namespace sim
