"""Build a tree of google/cctz with cmake+ninja (no guard, nothing of ours) and run its test suite.

usage: baseline.py [repo_dir] [build_dir]
Prints one line per test (gtest case names plus the three ctest entries) and a summary; exit 0 iff
all of them passed and the count matches /root/.vp/BASELINE.json's stable_pass list when present.
"""
import json
import os
import re
import shutil
import subprocess
import sys
import tempfile


def run(repo, bdir, keep=False):
    os.makedirs(bdir, exist_ok=True)
    env = dict(os.environ)
    r = subprocess.run(["cmake", "-G", "Ninja", "-S", repo, "-B", bdir, "-DCMAKE_BUILD_TYPE=RelWithDebInfo",
                        "-DCMAKE_CXX_FLAGS=-Wno-error"], capture_output=True, text=True, env=env)
    if r.returncode != 0:
        return False, "cmake configure failed:\n" + r.stdout + r.stderr, []
    r = subprocess.run(["cmake", "--build", bdir, "-j", "16"], capture_output=True, text=True, env=env)
    if r.returncode != 0:
        return False, "build failed:\n" + r.stdout[-4000:] + r.stderr[-4000:], []
    passed, failed = [], []
    r = subprocess.run(["ctest", "--test-dir", bdir, "-j8", "--timeout", "900"], capture_output=True, text=True, env=env)
    for m in re.finditer(r"Test\s+#\d+:\s+(\S+)\s+\.+\s*(Passed|\*\*\*\w+|Failed)", r.stdout):
        (passed if m.group(2) == "Passed" else failed).append(m.group(1) + "::" + m.group(1))
    env["TZDIR"] = os.path.join(repo, "testdata", "zoneinfo")
    for t in ("civil_time_test", "time_zone_lookup_test", "time_zone_format_test"):
        exe = os.path.join(bdir, t)
        if not os.path.exists(exe):
            failed.append(t + " (missing)")
            continue
        rr = subprocess.run([exe], capture_output=True, text=True, env=env, timeout=900)
        for m in re.finditer(r"^\[\s+(OK|FAILED)\s+\]\s+(\w+)\.(\w+)", rr.stdout, re.M):
            name = m.group(2) + "::" + m.group(3)
            if m.group(1) == "OK":
                passed.append(name)
            elif name not in failed:
                failed.append(name)
    return len(failed) == 0, "", (passed, failed)


def main():
    repo = sys.argv[1] if len(sys.argv) > 1 else (os.environ.get("VERIF_REPO") or "/repo")
    tmp = None
    if len(sys.argv) > 2:
        bdir = sys.argv[2]
    else:
        tmp = tempfile.mkdtemp(prefix="cctz-baseline-", dir="/dev/shm")
        bdir = tmp
    try:
        ok, msg, res = run(repo, bdir)
        if msg:
            print(msg)
            return 1
        passed, failed = res
        want = None
        try:
            want = set(json.load(open("/root/.vp/BASELINE.json"))["stable_pass"])
        except Exception:
            pass
        for n in sorted(set(passed)):
            print("PASS", n)
        for n in failed:
            print("FAIL", n)
        missing = sorted(want - set(passed)) if want else []
        for n in missing:
            print("MISSING", n)
        print("baseline: passed=%d failed=%d missing_vs_BASELINE.json=%d" % (len(set(passed)), len(failed), len(missing)))
        return 0 if ok and not missing else 1
    finally:
        if tmp:
            shutil.rmtree(tmp, ignore_errors=True)


if __name__ == "__main__":
    sys.exit(main())
