"""Self-tests of the machinery: determinism on a large sample, and sensitivity to hand-written mutants.

Mutants are textual edits applied to a scratch copy of the repository under /dev/shm (removed afterwards);
the registered check is run against the copy through VERIF_REPO and must exit 1.
"""
import json
import os
import shutil
import subprocess
import sys
import tempfile
import time

from . import build as B

VERIF = B.VERIF

# (id, property, file, old, new, note)
MUTANTS = [
    ("c13-no-lock-cs1", "C13", "src/time_zone_impl.cc",
     "const time_zone::Impl* FindTimeZone(const std::string& name) {\n  std::lock_guard<std::mutex> lock(TimeZoneMutex());",
     "const time_zone::Impl* FindTimeZone(const std::string& name) {",
     "cache lookup without the map lock"),
    ("c13-overwrite-on-insert", "C13", "src/time_zone_impl.cc",
     "  if (impl == nullptr) {  // this thread won any load race\n    impl = new_impl->zone_ ? new_impl.release() : utc_impl;\n  }",
     "  impl = new_impl->zone_ ? new_impl.release() : utc_impl;",
     "insert always overwrites (needs the load lock gone too to matter)"),
    ("c13-plain-hint", "C13", "src/time_zone_info.h",
     "mutable std::atomic<std::size_t> time_local_hint_ = {};",
     "mutable struct { std::size_t v = 0; std::size_t load(std::memory_order) const { return v; } void store(std::size_t x, std::memory_order) { v = x; } } time_local_hint_;",
     "MakeTime hint is a plain size_t"),
    ("c13-hint-double-read", "C13", "src/time_zone_info.cc",
     "      return LocalTime(unix_time, transitions_[hint - 1]);\n      }\n    }\n  }",
     "      return LocalTime(unix_time, transitions_[local_time_hint_.load(std::memory_order_relaxed) - 1]);\n      }\n    }\n  }",
     "hint validated, then read again for use"),
    ("c13-lazy-table-in-format", "C13", "src/time_zone_format.cc",
     "char* Format02d(char* ep, int v) {\n  *--ep = kDigits[v % 10];\n  *--ep = kDigits[(v / 10) % 10];\n  return ep;\n}",
     "char* Format02d(char* ep, int v) {\n  static char pairs[200];\n  static bool ready = false;\n  if (!ready) {\n    for (int i = 0; i < 100; ++i) { pairs[2 * i] = kDigits[i / 10]; pairs[2 * i + 1] = kDigits[i % 10]; }\n    ready = true;\n  }\n  *--ep = pairs[2 * (v % 100) + 1];\n  *--ep = pairs[2 * (v % 100)];\n  return ep;\n}",
     "a table built lazily on first use of format() without a guard (only racy while the process is cold)"),
    ("c14-no-lower-bracket-bt", "C14", "src/time_zone_info.cc",
     "    if (transitions_[hint - 1].unix_time <= unix_time) {\n      if (unix_time < transitions_[hint].unix_time) {",
     "    {\n      if (unix_time < transitions_[hint].unix_time) {",
     "BreakTime hint accepted without the lower bracket test"),
    ("c14-no-upper-bracket-mt", "C14", "src/time_zone_info.cc",
     "        if (cs < transitions_[hint].civil_sec) {\n          tr = begin + hint;\n        }",
     "        {\n          tr = begin + hint;\n        }",
     "MakeTime hint accepted without the upper bracket test"),
    ("c14-no-negative-cache", "C14", "src/time_zone_impl.cc",
     "  *tz = time_zone(impl);\n  return impl != utc_impl;\n}",
     "  *tz = time_zone(impl);\n  const bool ok = impl != utc_impl;\n  if (!ok) time_zone_map->erase(name);\n  return ok;\n}",
     "failures are not cached"),
    ("c12-no-typeidx-check", "C12", "src/time_zone_info.cc",
     "    if (transitions_[i].type_index >= hdr.typecnt)\n      return false;",
     "",
     "type index not validated"),
    ("c12-no-abbridx-check", "C12", "src/time_zone_info.cc",
     "    if (transition_types_[i].abbr_index >= hdr.charcnt)\n      return false;",
     "",
     "abbreviation index not validated"),
    ("c12-no-short-read-check", "C12", "src/time_zone_info.cc",
     "  if (zip->Read(tbuf.data(), len) != len)\n    return false;",
     "  zip->Read(tbuf.data(), len);",
     "short read of the data block ignored"),
    ("c12-locale-dependent-abbr", "C12", "src/time_zone_posix.cc",
     ["#include <cstring>", "    if (strchr(\"-+,\", *p)) break;\n    if (strchr(kDigits, *p)) break;\n    ++p;"],
     ["#include <cctype>\n#include <cstring>", "    if (!std::isalpha(static_cast<unsigned char>(*p))) break;\n    ++p;"],
     "bare abbreviations scanned with std::isalpha: what loads depends on the process's locale"),
    ("c12-keep-half-loaded", "C12", "src/time_zone_info.cc",
     "  if (!tz->Load(name)) tz.reset();  // fallback to UTC",
     "  if (!tz->Load(name) && name.size() % 7 == 3) tz.reset();  // fallback to UTC",
     "half-loaded object kept on failure"),
    ("c19-keep-colon", "C19", "src/time_zone_lookup.cc",
     "  if (*zone == ':') ++zone;",
     "  if (*zone == ':' && zone[1] == ':') ++zone;",
     "single leading ':' of $TZ not stripped"),
    ("c19-empty-tzdir-is-dir", "C19", "src/time_zone_info.cc",
     "    if (tzdir_env && *tzdir_env) tzdir = tzdir_env;",
     "    if (tzdir_env) tzdir = tzdir_env;",
     "empty TZDIR used as a directory"),
    ("c19-absolute-test-wrong-index", "C19", "src/time_zone_info.cc",
     "  if (pos == name.size() || name[pos] != '/') {\n    const char* tzdir",
     "  if (pos == name.size() || name[0] != '/') {\n    const char* tzdir",
     "absoluteness tested on name[0] instead of name[pos]"),
    ("c19-localtime-ignored", "C19", "src/time_zone_lookup.cc",
     "    if (localtime_env) zone = localtime_env;",
     "    if (localtime_env && *localtime_env == '/') zone = localtime_env;",
     "relative/empty $LOCALTIME ignored"),
    ("c19-true-on-failure", "C19", "src/time_zone_impl.cc",
     "  *tz = time_zone(impl);\n  return impl != utc_impl;\n}",
     "  *tz = time_zone(impl);\n  return impl != utc_impl || name.size() == 6;\n}",
     "load reports success for some failing names"),
    ("c19-android-bundle-order", "C19", "src/time_zone_info.cc",
     '"/apex/com.android.tzdata/etc/tz/tzdata",\n                             "/data/misc/zoneinfo/current/tzdata",',
     '"/data/misc/zoneinfo/current/tzdata",\n                             "/apex/com.android.tzdata/etc/tz/tzdata",',
     "Android bundles consulted in a different order (platform fall-back worlds)"),
    ("c19-android-ragged-index", "C19", "src/time_zone_info.cc",
     "    if (zonecnt * sizeof(ebuf) != index_size) continue;\n", "",
     "a bundle whose index is not a whole number of entries is used anyway"),
    ("c19-android-length-ignored", "C19", "src/time_zone_info.cc",
     "std::move(fp), static_cast<std::size_t>(length), vers));", "std::move(fp), static_cast<std::size_t>(-1), vers));",
     "the entry length of a bundle no longer bounds the reads"),
    ("c20-revert-load-lock", "C20", "src/time_zone_impl.cc",
     "  if (!fixed_offset) {\n    load_lock.lock();",
     "  if (!fixed_offset && name.empty()) {\n    load_lock.lock();",
     "loads no longer serialised (the repaired defect comes back)"),
    ("c20-retry-factory-on-null", "C20", "src/time_zone_info.cc",
     "  return zip != nullptr && Load(zip.get());\n}",
     "  if (zip == nullptr) zip = cctz_extension::zone_info_source_factory(name, [](const std::string&) -> std::unique_ptr<ZoneInfoSource> { return nullptr; });\n  return zip != nullptr && Load(zip.get());\n}",
     "factory retried once when it returns null"),
    ("c20-async-load", "C20", "src/time_zone_impl.cc",
     ["#include <deque>\n", "  std::unique_ptr<const Impl> new_impl(new Impl(name));"],
     ["#include <deque>\n#include <future>\n", "  std::unique_ptr<const Impl> new_impl(std::async(std::launch::async, [&name] { return new Impl(name); }).get());"],
     "the load (and so the factory) runs on a helper thread"),
    ("c20-factory-before-fixed", "C20", "src/time_zone_info.cc",
     "  auto offset = seconds::zero();\n  if (FixedOffsetFromName(name, &offset)) {\n    return ResetToBuiltinUTC(offset);\n  }\n\n  // Find and use",
     "  auto offset = seconds::zero();\n  if (FixedOffsetFromName(name, &offset) && name.size() != 18) {\n    return ResetToBuiltinUTC(offset);\n  }\n\n  // Find and use",
     "factory consulted for fixed-offset names"),
]


def make_copy():
    d = tempfile.mkdtemp(prefix="cctz-mut-", dir="/dev/shm")
    repo = "/repo"
    for sub in ("include", "src"):
        shutil.copytree(os.path.join(repo, sub), os.path.join(d, sub))
    os.symlink(os.path.join(repo, "testdata"), os.path.join(d, "testdata"))
    return d


def run_mutant(m, say, tier="quick"):
    mid, prop, rel, old, new, note = m
    d = make_copy()
    try:
        path = os.path.join(d, rel)
        text = open(path).read()
        pairs = list(zip(old, new)) if isinstance(old, (list, tuple)) else [(old, new)]
        for o, n in pairs:
            if o not in text:
                say("mutant %-32s NOT APPLICABLE (pattern not found)" % mid)
                return None
            text = text.replace(o, n, 1)
        open(path, "w").write(text)
        env = dict(os.environ, VERIF_REPO=d)
        t0 = time.time()
        p = subprocess.run([os.path.join(VERIF, "verif.py"), "check", prop, "--tier", tier], capture_output=True, text=True, env=env, timeout=3600)
        viol = [l for l in p.stdout.split("\n") if l.startswith("VIOLATION") or l.strip().startswith("class=")]
        say("mutant %-32s %s rc=%d %.0fs %s" % (mid, "CAUGHT" if p.returncode == 1 else "MISSED", p.returncode, time.time() - t0,
                                               (viol[1].strip() if len(viol) > 1 else (p.stdout.strip().split("\n")[-1][:200] if p.returncode != 1 else ""))))
        return p.returncode == 1
    finally:
        shutil.rmtree(d, ignore_errors=True)


def main(what, say):
    if what.startswith("mutants"):
        only = what.split(":", 1)[1].split(",") if ":" in what else None
        res = {}
        # keep replays and evidence of the real tree intact
        keep = tempfile.mkdtemp(prefix="verif-keep-", dir="/dev/shm")
        for sub in ("evidence", "replays"):
            if os.path.isdir(os.path.join(VERIF, sub)):
                shutil.copytree(os.path.join(VERIF, sub), os.path.join(keep, sub))
        try:
            for m in MUTANTS:
                if only and not any(m[0].startswith(o) or m[1] == o for o in only):
                    continue
                res[m[0]] = run_mutant(m, say)
        finally:
            for sub in ("evidence", "replays"):
                if os.path.isdir(os.path.join(keep, sub)):
                    shutil.rmtree(os.path.join(VERIF, sub), ignore_errors=True)
                    shutil.copytree(os.path.join(keep, sub), os.path.join(VERIF, sub))
            shutil.rmtree(keep, ignore_errors=True)
            for v in B.VARIANTS:   # rebuild against the real tree so that later commands do not use mutant binaries
                try:
                    B.build(v)
                except RuntimeError:
                    pass
        caught = sum(1 for v in res.values() if v)
        say("mutants: %d caught, %d missed, %d not applicable" % (caught, sum(1 for v in res.values() if v is False), sum(1 for v in res.values() if v is None)))
        with open(os.path.join(VERIF, "mutants_last_run.json"), "w") as f:
            json.dump(res, f, indent=1)
        return 0 if all(v is not False for v in res.values()) else 1
    if what == "determinism":
        from . import runner as R
        bad = 0
        for prop, variant, part in (("C13", "asan", ""), ("C13", "tsan", ""), ("C20", "asan", ""), ("C14", "asan", "random"), ("C14", "tsan", "hints"),
                                    ("C14", "asan", ""), ("C12", "asan", ""), ("C12", "gzero", ""), ("C19", "asan", "faulted"), ("C19", "asan", "random"), ("C19", "asan", "platform"), ("C14", "asan", "order")):
            B.build(variant)
            n = 2000
            a = R.run_stage(variant, prop, "quick", 4242, part, n, 125, hash_mod=1, samples=0)
            b = R.run_stage(variant, prop, "quick", 4242, part, n, 1000, hash_mod=1, samples=0)
            old = R.NPROC
            R.NPROC = 1
            c = R.run_stage(variant, prop, "quick", 4242, part, 300, 300, hash_mod=1, samples=0)
            R.NPROC = old
            mism = [k for k in a.hashes if a.hashes[k] != b.hashes.get(k)] + [k for k in c.hashes if c.hashes[k] != a.hashes.get(k)]
            say("determinism %s/%s/%s: %d seeds x (16 workers of 125, 2 workers of 1000, 1 worker of 300): %d mismatches" % (prop, variant, part or "-", len(a.hashes), len(mism)))
            bad += len(mism)
        return 0 if bad == 0 else 1
    say("unknown selftest")
    return 2
