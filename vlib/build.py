"""Build the simzone binary in its sanitizer variants from ${VERIF_REPO:-/repo}'s working tree.

Objects are cached by a content hash of (command line, translation unit, every header of the
repository and of the harness), so an unchanged tree costs one link and a changed tree is
always rebuilt: the cache can never serve an object that does not correspond to the tree.
"""
import concurrent.futures as cf
import glob
import hashlib
import os
import subprocess
import sys

VERIF = os.path.dirname(os.path.dirname(os.path.abspath(__file__)))
SIM = os.path.join(VERIF, "sim")
BUILD = os.path.join(VERIF, "build")


def repo_root():
    return os.environ.get("VERIF_REPO") or "/repo"


WRAPS_COMMON = [
    "pthread_mutex_lock", "pthread_mutex_unlock", "pthread_mutex_trylock", "pthread_once", "pthread_self",
    "pthread_cond_wait", "pthread_cond_timedwait", "pthread_cond_clockwait", "pthread_cond_signal", "pthread_cond_broadcast",
    "pthread_rwlock_rdlock", "pthread_rwlock_wrlock", "pthread_rwlock_unlock",
    "__cxa_guard_acquire", "__cxa_guard_release", "__cxa_guard_abort",
    "getenv", "fopen", "__assert_fail", "getauxval", "getuid", "geteuid", "getgid", "getegid", "secure_getenv",
    "stat", "lstat", "access", "realpath", "readlink", "getcwd", "open", "open64", "openat", "opendir",
    "strtok", "localtime", "gmtime", "ctime", "asctime", "setlocale",
    "isalpha", "isalnum", "isdigit", "isspace", "isupper", "islower", "ispunct", "tolower", "toupper",
]
# clang builds: the library's thread_locals go through __emutls_get_address, which the scheduler serves per task
EMUTLS_WRAPS = ["__emutls_get_address", "__cxa_thread_atexit", "__cxa_atexit"]
UBSAN_HANDLERS = [
    "add_overflow", "sub_overflow", "mul_overflow", "negate_overflow", "divrem_overflow",
    "shift_out_of_bounds", "out_of_bounds", "load_invalid_value", "type_mismatch_v1",
    "pointer_overflow", "float_cast_overflow", "vla_bound_not_positive", "nonnull_arg",
    "invalid_builtin", "alignment_assumption", "implicit_conversion", "nonnull_return_v1",
    "builtin_unreachable", "missing_return",
]
TSAN_ATOMICS = ["load", "store", "exchange", "fetch_add", "fetch_sub", "fetch_and", "fetch_or", "fetch_xor",
                "compare_exchange_strong", "compare_exchange_weak"]

HARNESS = ["main.cc", "cases.cc", "conc.cc", "c12.cc", "c14a.cc", "c19.cc", "engine.cc", "ops.cc", "simsched.cc", "seams.cc", "tzif.cc", "premain.cc"]
# Harness TUs that call into cctz's header-inline code with the arguments under test get UBSan too.
HARNESS_UBSAN = {"ops.cc"}

VARIANTS = {
    "asan": dict(
        cxx="clang++",
        lib=["-O1", "-g", "-fno-omit-frame-pointer", "-fsanitize=address,undefined", "-fno-sanitize=vptr,function", "-femulated-tls"],
        har=["-O1", "-g", "-fno-omit-frame-pointer", "-fsanitize=address", "-DSIM_ASAN"],
        har_ub=["-fsanitize=address,undefined", "-fno-sanitize=vptr,function"],
        link=["-fsanitize=address,undefined"],
        wraps=WRAPS_COMMON + EMUTLS_WRAPS + ["__ubsan_handle_" + h for h in UBSAN_HANDLERS],
    ),
    "tsan": dict(
        cxx="clang++",
        lib=["-O1", "-g", "-fno-omit-frame-pointer", "-fsanitize=thread", "-femulated-tls"],
        har=["-O1", "-g", "-fno-omit-frame-pointer", "-DSIM_TSAN"],
        har_ub=[],
        link=["-fsanitize=thread"],
        wraps=WRAPS_COMMON + EMUTLS_WRAPS + ["__tsan_atomic%d_%s" % (n, op) for n in (8, 16, 32, 64) for op in TSAN_ATOMICS] + ["__tsan_atomic_thread_fence"],
    ),
    "gzero": dict(
        cxx="g++",
        lib=["-O1", "-g", "-ftrivial-auto-var-init=zero"],
        har=["-O1", "-g", "-DSIM_GZERO"],
        har_ub=[],
        link=[],
        wraps=WRAPS_COMMON + EMUTLS_WRAPS,   # g++ has no -femulated-tls: thread_locals stay shared by all tasks in these builds
    ),
    "gpat": dict(
        cxx="g++",
        lib=["-O1", "-g", "-ftrivial-auto-var-init=pattern"],
        har=["-O1", "-g", "-DSIM_GPAT"],
        har_ub=[],
        link=[],
        wraps=WRAPS_COMMON + EMUTLS_WRAPS,   # g++ has no -femulated-tls: thread_locals stay shared by all tasks in these builds
    ),
}


# Built on demand only (tools/coverage.py): line/branch coverage of the library under the simulated workloads.
EXTRA_VARIANTS = {
    "cov": dict(
        cxx="clang++",
        lib=["-O0", "-g", "-fprofile-instr-generate", "-fcoverage-mapping", "-femulated-tls"],
        har=["-O1", "-g", "-DSIM_COV"],
        har_ub=[],
        link=["-fprofile-instr-generate"],
        wraps=WRAPS_COMMON + EMUTLS_WRAPS,
    ),
}


def lib_sources(repo):
    out = []
    for p in sorted(glob.glob(os.path.join(repo, "src", "*.cc"))):
        b = os.path.basename(p)
        if b.endswith("_test.cc") or "benchmark" in b or b == "time_tool.cc":
            continue
        out.append(p)
    return out


def _hash_files(paths):
    h = hashlib.sha256()
    for p in sorted(paths):
        h.update(p.encode())
        with open(p, "rb") as f:
            h.update(f.read())
    return h.hexdigest()


def build(variant, quiet=True, harness=None):
    """Returns path of the binary; raises RuntimeError with compiler output on failure."""
    repo = repo_root()
    v = VARIANTS.get(variant) or EXTRA_VARIANTS[variant]
    objdir = os.path.join(BUILD, "obj")
    outdir = os.path.join(BUILD, variant)
    os.makedirs(objdir, exist_ok=True)
    os.makedirs(outdir, exist_ok=True)
    repo_hdrs = glob.glob(os.path.join(repo, "include", "cctz", "*.h")) + glob.glob(os.path.join(repo, "src", "*.h"))
    sim_hdrs = glob.glob(os.path.join(SIM, "*.h"))
    hdr_hash_lib = _hash_files(repo_hdrs)
    hdr_hash_har = _hash_files(repo_hdrs + sim_hdrs)
    jobs = []
    inc = ["-I" + os.path.join(repo, "include"), "-I" + os.path.join(repo, "src")]
    for src in lib_sources(repo):
        cmd = [v["cxx"], "-std=c++11", "-UNDEBUG"] + v["lib"] + inc + ["-c", src]
        jobs.append((src, cmd, hdr_hash_lib))
    for name in (harness or HARNESS):
        src = os.path.join(SIM, name)
        extra = v["har_ub"] if name in HARNESS_UBSAN else []
        cmd = [v["cxx"], "-std=c++17", "-Wall", "-Wno-unused-function"] + v["har"] + extra + inc + ["-I" + SIM, "-c", src]
        jobs.append((src, cmd, hdr_hash_har))

    def compile_one(job):
        src, cmd, hh = job
        h = hashlib.sha256()
        h.update(" ".join(cmd).encode())
        h.update(hh.encode())
        with open(src, "rb") as f:
            h.update(f.read())
        obj = os.path.join(objdir, h.hexdigest()[:32] + ".o")
        if not os.path.exists(obj):
            tmp = obj + ".%d.tmp" % os.getpid()
            r = subprocess.run(cmd + ["-o", tmp], capture_output=True, text=True)
            if r.returncode != 0:
                return (src, None, r.stdout + r.stderr)
            os.replace(tmp, obj)
        return (src, obj, "")

    with cf.ThreadPoolExecutor(max_workers=16) as ex:
        results = list(ex.map(compile_one, jobs))
    errs = [r for r in results if r[1] is None]
    if errs:
        raise RuntimeError("compile failed:\n" + "\n".join("%s:\n%s" % (e[0], e[2]) for e in errs))
    objs = [r[1] for r in results]
    binary = os.path.join(outdir, "simzone")
    link_key = hashlib.sha256((" ".join(objs) + " ".join(v["link"]) + " ".join(v["wraps"])).encode()).hexdigest()
    stamp = os.path.join(outdir, "link.stamp")
    if not (os.path.exists(binary) and os.path.exists(stamp) and open(stamp).read() == link_key):
        wrap = ["-Wl," + ",".join("--wrap=" + w for w in v["wraps"])]
        cmd = [v["cxx"]] + v["link"] + objs + wrap + ["-lpthread", "-o", binary + ".tmp"]
        r = subprocess.run(cmd, capture_output=True, text=True)
        if r.returncode != 0:
            raise RuntimeError("link failed:\n" + r.stdout + r.stderr)
        os.replace(binary + ".tmp", binary)
        with open(stamp, "w") as f:
            f.write(link_key)
    with open(os.path.join(outdir, "objs.list"), "w") as f:
        f.write("\n".join(objs))
    _prune(objdir)
    if not quiet:
        print("built", binary, file=sys.stderr)
    return binary


def _prune(objdir):
    keep = set()
    for lst in glob.glob(os.path.join(BUILD, "*", "objs.list")):
        keep.update(open(lst).read().split("\n"))
    objs = glob.glob(os.path.join(objdir, "*.o"))
    if len(objs) > 400:
        for o in objs:
            if o not in keep:
                try:
                    os.remove(o)
                except OSError:
                    pass


if __name__ == "__main__":
    for var in (sys.argv[1:] or list(VARIANTS)):
        print(build(var, quiet=False))
