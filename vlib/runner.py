"""Parallel execution of simzone workers, crash recovery, violation gating, minimisation, evidence."""
import concurrent.futures as cf
import copy
import json
import os
import re
import subprocess
import sys
import tempfile
import threading
import time

from . import build as B

VERIF = B.VERIF
NPROC = int(os.environ.get("VERIF_JOBS") or 16)
WORK = os.path.join(VERIF, "work")


def _env():
    e = dict(os.environ)
    e.setdefault("VERIF_REPO", B.repo_root())
    e["TZ"] = "UTC"
    e["LC_ALL"] = "C"
    # Sanitizer option strings are compiled into the binary; make sure the caller's do not override them.
    for k in ("ASAN_OPTIONS", "TSAN_OPTIONS", "UBSAN_OPTIONS", "TZDIR", "LOCALTIME"):
        e.pop(k, None)
    return e


def parse_lines(text):
    out = []
    for line in text.split("\n"):
        line = line.strip()
        if not line or line[0] != "{":
            continue
        try:
            out.append(json.loads(line))
        except ValueError:
            pass
    return out


def classify_crash(marker, stderr):
    """Violation class for a run that killed its worker."""
    kind = marker.get("crash", "?")
    phase = marker.get("phase", "?")
    detail = marker.get("detail", "")
    if kind == "asan":
        m = re.search(r"ERROR: AddressSanitizer: ([\w-]+)", stderr)
        k = m.group(1) if m else "unknown"
        fn = "?"
        for fm in re.finditer(r"#\d+ 0x[0-9a-f]+ in (\S+)", stderr):
            f = fm.group(1)
            if f.startswith("cctz::") or "cctz::" in f:
                fn = f.split("(")[0]
                break
        return "asan:%s@%s" % (k, fn), (m.group(0) if m else "AddressSanitizer error")
    if kind == "assert":
        parts = detail.split("|")
        fn = parts[0].split("(")[0].split(" ")[-1] if parts else "?"
        return "assert@%s" % fn, detail
    if kind == "hang":
        return "hang@%s" % phase, detail
    if kind == "signal":
        return "signal:%s@%s" % (detail.replace("signal ", ""), phase), detail
    if kind == "ubsan-fatal":
        return "ubsan:%s" % detail.split("|")[0], detail
    return "%s@%s" % (kind, phase), detail


class Result:
    def __init__(self):
        self.stats = {}
        self.runs = 0
        self.nontrivial = 0
        self.keys = set()
        self.hashes = {}
        self.digests = {}
        self.violations = []   # dicts: run, class, site, detail, case(optional), variant, part, rerun_same
        self.crashes = []
        self.samples = []
        self.machinery = []
        self.wall = 0.0
        self.extra = {}

    def add_stats(self, st):
        for k, v in st.items():
            self.stats[k] = self.stats.get(k, 0) + v


def run_worker_block(binary, prop, tier, seed, part, start, count, extra, variant, res, lock, stop, stop_pred=None):
    """Run [start, start+count) in one process, restarting after a run that kills it."""
    pos = start
    end = start + count
    while pos < end and not stop.is_set():
        cmd = [binary, "worker", "--prop", prop, "--tier", tier, "--seed", str(seed), "--start", str(pos),
               "--count", str(end - pos)] + (["--part", part] if part else []) + list(extra)
        try:
            p = subprocess.run(cmd, capture_output=True, text=True, env=_env(), timeout=3600, errors="replace")
        except subprocess.TimeoutExpired:
            with lock:
                res.machinery.append("worker timeout: " + " ".join(cmd))
            return
        lines = parse_lines(p.stdout)
        done = None
        marker = None
        with lock:
            for j in lines:
                if "violations" in j and "run" in j:
                    for v in j["violations"]:
                        res.violations.append(dict(run=j["run"], cls=v["class"], site=v["site"], detail=v["detail"],
                                                   tags=v.get("tags", []), case=j.get("case"), variant=variant, part=part,
                                                   rerun_same=j.get("rerun_same", True), proc_start=pos, extra=list(extra)))
                elif "sample" in j:
                    if len(res.samples) < 5:
                        res.samples.append(j["sample"])
                elif "crash" in j:
                    marker = j
                elif j.get("done"):
                    done = j
            if done:
                res.add_stats(done.get("stats", {}))
                res.runs += done.get("runs", 0)
                res.nontrivial += done.get("nontrivial", 0)
                res.keys.update(done.get("keys", []))
                for h in done.get("hashes", []):
                    res.hashes[h[0]] = h[1]
                for d in done.get("digests", []):
                    res.digests[d[0]] = d[1]
        if stop_pred is not None:
            with lock:
                if any(stop_pred(v) for v in res.violations[-50:]):
                    stop.set()
        if done:
            pos = done["start"] + done["count"]
            continue
        # The worker died.  Which run?
        if marker is None or marker.get("run", -1) < pos:
            with lock:
                res.machinery.append("worker died without a marker (rc=%s): %s\n%s" % (p.returncode, " ".join(cmd), p.stderr[-2000:]))
            return
        bad = marker["run"]
        cls, info = classify_crash(marker, p.stderr)
        with lock:
            res.crashes.append(dict(run=bad, cls=cls, info=info, marker=marker, variant=variant, part=part))
            res.violations.append(dict(run=bad, cls=cls, site=info[:200], detail=marker.get("detail", ""), tags=marker.get("tags", "").split(), case=None,
                                       variant=variant, part=part, rerun_same=True, crash=True))
            res.runs += max(0, bad - pos)  # runs completed before the crash (their stats are lost)
            res.stats["worker_restarts"] = res.stats.get("worker_restarts", 0) + 1
            if stop_pred is not None and stop_pred(res.violations[-1]):
                stop.set()
        pos = bad + 1


def run_stage(variant, prop, tier, seed, part, total, block, extra=(), hash_mod=0, key_mod=1, samples=1, stop=None, stop_pred=None):
    """Run `total` runs of one part on one build variant across all cores."""
    binary = os.path.join(B.BUILD, variant, "simzone")
    res = Result()
    lock = threading.Lock()
    stop = stop or threading.Event()
    t0 = time.time()
    blocks = []
    s = 0
    while s < total:
        n = min(block, total - s)
        blocks.append((s, n))
        s += n
    ex_args = list(extra)
    if hash_mod:
        ex_args += ["--hash-mod", str(hash_mod)]
    if key_mod and key_mod > 1:
        ex_args += ["--key-mod", str(key_mod)]
    with cf.ThreadPoolExecutor(max_workers=NPROC) as ex:
        futs = []
        for i, (s, n) in enumerate(blocks):
            ea = ex_args + (["--samples", str(samples)] if i < 3 and samples else [])
            futs.append(ex.submit(run_worker_block, binary, prop, tier, seed, part, s, n, ea, variant, res, lock, stop, stop_pred))
        for f in futs:
            f.result()
    res.wall = time.time() - t0
    return res


def determinism_recheck(variant, prop, tier, seed, part, total, block, hash_mod, first, extra=(), recheck_block=None, all_blocks=False):
    """Re-execute the hash-sampled runs in differently shaped worker blocks; every log hash must match."""
    if not hash_mod or not first.hashes:
        return dict(n=0, mismatches=0)
    binary = os.path.join(B.BUILD, variant, "simzone")
    res = Result()
    lock = threading.Lock()
    stop = threading.Event()
    blk = recheck_block or (block * 3 + 7 * hash_mod)
    blocks = []
    s = 0
    while s < total:
        if recheck_block is None or all_blocks or s % hash_mod == 0:   # single-run blocks: only the sampled runs need a process
            blocks.append((s, min(blk, total - s)))
        s += blk
    with cf.ThreadPoolExecutor(max_workers=NPROC) as ex:
        futs = [ex.submit(run_worker_block, binary, prop, tier, seed, part, s, n,
                          # (the same-shape pass must execute every run, like the first pass did: a library that keeps
                          # state from run to run is only then in the same state when a sampled run starts)
                          list(extra) + ["--hash-mod", str(hash_mod)] + ([] if all_blocks else ["--only-hash"]), variant, res, lock, stop)
                for (s, n) in blocks]
        for f in futs:
            f.result()
    mism = [k for k, v in res.hashes.items() if k in first.hashes and first.hashes[k] != v]
    return dict(n=len(res.hashes), mismatches=len(mism), mismatch_runs=mism[:5])


# ----------------------------------------------------------------------------- replay / evaluate
def evaluate_case(variant, case, want_log=False, timeout=120, twice=False):
    """Run one explicit case in a fresh process.  Returns (classes, raw) where classes is the list of
    violation classes observed (crashes included)."""
    binary = os.path.join(B.BUILD, variant, "simzone")
    os.makedirs(WORK, exist_ok=True)
    fd, path = tempfile.mkstemp(prefix="case-", suffix=".json", dir=WORK)
    with os.fdopen(fd, "w") as f:
        json.dump(case, f)
    try:
        cmd = [binary, "replay", path] + (["--log"] if want_log else []) + (["--twice"] if twice else [])
        try:
            p = subprocess.run(cmd, capture_output=True, text=True, env=_env(), timeout=timeout, errors="replace")
        except subprocess.TimeoutExpired:
            return ["hang@replay-timeout"], dict(timeout=True)
        lines = parse_lines(p.stdout)
        classes = []
        raw = dict(rc=p.returncode, stderr=p.stderr[-6000:])
        for j in lines:
            if j.get("replayed"):
                raw["out"] = j
                classes += [v["class"] for v in j.get("violations", [])]
            elif "crash" in j:
                cls, info = classify_crash(j, p.stderr)
                classes.append(cls)
                raw["crash"] = j
                raw["crash_info"] = info
        if p.returncode not in (0, 1) and not classes:
            classes.append("machinery:replay-rc-%d" % p.returncode)
        return classes, raw
    finally:
        try:
            os.remove(path)
        except OSError:
            pass


def generated_case(variant, prop, tier, seed, part, idx):
    binary = os.path.join(B.BUILD, variant, "simzone")
    cmd = [binary, "gen", "--prop", prop, "--tier", tier, "--seed", str(seed), "--index", str(idx)] + (["--part", part] if part else [])
    p = subprocess.run(cmd, capture_output=True, text=True, env=_env(), timeout=120)
    ls = parse_lines(p.stdout)
    return ls[0] if ls else None


# ----------------------------------------------------------------------------- minimisation
def _candidates(case):
    """Yield (description, smaller_case) pairs, greedy delta debugging over the case's lists."""
    eng = case.get("engine")
    if eng == "conc":
        tasks = case.get("tasks", [])
        if len(tasks) > 3:
            # Big cases first: keep only two or three tasks (the violating one, when the hint names it, is tried first).
            import itertools
            n = len(tasks)
            order = list(range(n))
            hint = case.get("_violating_task")
            if isinstance(hint, int) and 0 <= hint < n:
                order.remove(hint)
                order.insert(0, hint)
            combos = [c for c in itertools.combinations(order, 2)][:40] + [c for c in itertools.combinations(order, 3)][:40]
            for keep in combos:
                keep = sorted(keep)
                c = copy.deepcopy(case)
                c["tasks"] = [copy.deepcopy(tasks[i]) for i in keep]
                remap = {old: new for new, old in enumerate(keep)}
                for k2, t in enumerate(c["tasks"]):
                    t["id"] = k2
                    for op in t.get("ops", []):
                        if op.get("op") == "take":
                            op["from_task"] = remap.get(op.get("from_task"), 0)
                c["schedule"] = [remap[x] for x in case.get("schedule", []) if x in remap]
                yield "keep only tasks %s" % keep, c
        if len(tasks) > 1:
            for i in range(len(tasks)):
                c = copy.deepcopy(case)
                del c["tasks"][i]
                for k, t in enumerate(c["tasks"]):
                    t["id"] = k
                # keep schedule ids meaningful: ids above the removed one shift down
                c["schedule"] = [(s - 1 if s > i else s) for s in c.get("schedule", []) if s != i]
                yield "drop task %d" % i, c
        for ti, t in enumerate(tasks):
            ops = t.get("ops", [])
            n = len(ops)
            chunk = n // 2
            while chunk >= 1:
                for s in range(0, n, chunk):
                    if n - min(chunk, n - s) < 1 and len(tasks) == 1:
                        continue
                    c = copy.deepcopy(case)
                    del c["tasks"][ti]["ops"][s:s + chunk]
                    yield "drop ops %d..%d of task %d" % (s, s + chunk, ti), c
                chunk //= 2
        sched = case.get("schedule", [])
        if sched:
            c = copy.deepcopy(case)
            c["schedule"] = []
            yield "empty schedule", c
            for cut in (len(sched) // 2, len(sched) * 3 // 4, len(sched) - 1):
                if 0 < cut < len(sched):
                    c = copy.deepcopy(case)
                    c["schedule"] = sched[:cut]
                    yield "truncate schedule to %d" % cut, c
            # canonicalise: make step i repeat step i-1
            for i in range(1, len(sched)):
                if sched[i] != sched[i - 1]:
                    c = copy.deepcopy(case)
                    c["schedule"][i] = sched[i - 1]
                    yield "schedule[%d] := schedule[%d]" % (i, i - 1), c
        for zi, z in enumerate(case.get("zones", [])):
            if z.get("base", "").startswith("shipped:") and z["base"] != "shipped:Etc/UTC":
                c = copy.deepcopy(case)
                c["zones"][zi]["base"] = "shipped:Etc/UTC"
                yield "zone %d base := Etc/UTC" % zi, c
        k = case.get("knobs", {})
        if k.get("factory_yields", 0) > 0:
            c = copy.deepcopy(case)
            c["knobs"]["factory_yields"] = 0
            yield "factory_yields := 0", c
    else:
        for key in case.get("shrink_lists", []):
            lst = case.get(key, [])
            n = len(lst)
            chunk = max(1, n // 2)
            while chunk >= 1 and n > 0:
                for s in range(0, n, chunk):
                    c = copy.deepcopy(case)
                    del c[key][s:s + chunk]
                    yield "drop %s[%d:%d]" % (key, s, s + chunk), c
                if chunk == 1:
                    break
                chunk //= 2
        for key, small in case.get("shrink_scalars", {}).items():
            if case.get(key) != small:
                c = copy.deepcopy(case)
                c[key] = small
                yield "%s := %r" % (key, small), c


def minimise(variant, case, cls, budget_execs=500, budget_s=60):
    """Greedy: accept any smaller case that still shows exactly the same violation class."""
    t0 = time.time()
    execs = 0
    cur = case
    improved = True
    while improved and execs < budget_execs and time.time() - t0 < budget_s:
        improved = False
        for desc, cand in _candidates(cur):
            if execs >= budget_execs or time.time() - t0 > budget_s:
                break
            execs += 1
            classes, _ = evaluate_case(variant, cand)
            if cls in classes:
                cur = cand
                improved = True
                break
    return cur, execs


# ----------------------------------------------------------------------------- known findings
def load_known():
    path = os.path.join(VERIF, "known_findings.json")
    try:
        return json.load(open(path)).get("entries", [])
    except (OSError, ValueError):
        return []


def match_known(prop, v, known):
    for e in known:
        if e.get("status") != "finding" or e.get("property") != prop:
            continue
        m = e.get("match", {})
        if "class" in m and m["class"] != v["cls"]:
            continue
        if "class_regex" in m and not re.fullmatch(m["class_regex"], v["cls"]):
            continue
        if "site_regex" in m and not re.search(m["site_regex"], v.get("site", "")):
            continue
        if "requires_tag" in m and m["requires_tag"] not in v.get("tags", []):
            continue
        return e
    return None


def single_zone_references(variant):
    """C14 part 'order': the fingerprint of every base zone, each taken in a fresh process that loads nothing else.
    Returns the path of a JSON file (the caller removes it) and the number of references."""
    binary = os.path.join(B.BUILD, variant, "simzone")
    p = subprocess.run([binary, "dump-bases"], capture_output=True, text=True, env=_env(), timeout=300)
    bases = [l.strip() for l in p.stdout.split("\n") if l.strip().startswith(("shipped:", "synth:"))]

    def one(b):
        q = subprocess.run([binary, "fingerprint", "--base", b], capture_output=True, text=True, env=_env(), timeout=120)
        for j in parse_lines(q.stdout):
            if "fingerprint" in j:
                return b, j["fingerprint"]
        return b, None
    refs, missing = {}, []
    with cf.ThreadPoolExecutor(max_workers=NPROC) as ex:
        for b, fp in ex.map(one, bases):
            if fp is None:
                missing.append(b)
            else:
                refs[b] = fp
    os.makedirs(WORK, exist_ok=True)
    fd, path = tempfile.mkstemp(prefix="c14-refs-", suffix=".json", dir=WORK)
    with os.fdopen(fd, "w") as f:
        json.dump(refs, f)
    return path, len(refs), missing


def block_replay(variant, prop, tier, seed, part, start, run, cls=None, want_digest=False, extra=()):
    """Re-execute a worker from `start` up to and including `run` in a fresh process (a pure function of the
    seed and the indices).  Returns (classes observed at `run`, digest of `run` or None)."""
    binary = os.path.join(B.BUILD, variant, "simzone")
    cmd = [binary, "worker", "--prop", prop, "--tier", tier, "--seed", str(seed), "--start", str(start), "--count", str(run - start + 1)]
    if part:
        cmd += ["--part", part]
    if want_digest:
        cmd += ["--digests"]
    # the options the stage ran its workers with (--weak-hash, --cold, ...); a references file is taken afresh
    extra = list(extra)
    refs_path = None
    if "--refs" in extra:
        i = extra.index("--refs")
        del extra[i:i + 2]
        refs_path, _, _ = single_zone_references(variant)
        extra += ["--refs", refs_path]
    cmd += extra
    try:
        p = subprocess.run(cmd, capture_output=True, text=True, env=_env(), timeout=1800, errors="replace")
    except subprocess.TimeoutExpired:
        return ["machinery:block-replay-timeout"], None
    finally:
        if refs_path:
            try:
                os.remove(refs_path)
            except OSError:
                pass
    classes, digest = [], None
    for j in parse_lines(p.stdout):
        if j.get("run") == run and "violations" in j:
            classes += [v["class"] for v in j["violations"]]
        elif "crash" in j and j.get("run") == run:
            classes.append(classify_crash(j, p.stderr)[0])
        elif j.get("done"):
            for d in j.get("digests", []):
                if d[0] == run:
                    digest = d[1]
    return classes, digest


# ----------------------------------------------------------------------------- valgrind (memcheck) on the plain build
VG = ["valgrind", "-q", "--error-exitcode=99", "--errors-for-leak-kinds=none", "--leak-check=no", "--num-callers=30"]


def classify_valgrind(stderr):
    """First memcheck error with a cctz frame -> 'valgrind:<kind>@<function>' (None if there is none)."""
    kind = None
    for line in stderr.split("\n"):
        m = re.match(r"==\d+== ([A-Z][^=]*)$", line)
        if m and not line.startswith("==") is False:
            pass
        m = re.match(r"==\d+== (Conditional jump or move depends on uninitialised value|Use of uninitialised value|Invalid read|Invalid write|Invalid free|Mismatched free|Syscall param .* uninitialised|Source and destination overlap)", line)
        if m:
            kind = m.group(1).lower().replace(" ", "-")
            continue
        if kind:
            f = re.match(r"==\d+==\s+(?:at|by) 0x[0-9A-F]+: (.*?) \(", line)
            if f and "cctz::" in f.group(1):
                fn = f.group(1).split("(")[0]
                return "valgrind:%s@%s" % (kind, fn)
            if re.match(r"==\d+==\s*$", line):
                kind = None   # error block ended without a cctz frame: harness or libc, not ours to judge
    return None


def valgrind_block(prop, tier, seed, part, start, count):
    binary = os.path.join(B.BUILD, "gzero", "simzone")
    cmd = VG + [binary, "worker", "--prop", prop, "--tier", tier, "--seed", str(seed), "--start", str(start), "--count", str(count)] + (["--part", part] if part else [])
    # memcheck replaces the allocator, so the harness's heap budget does not bind there: keep an eye on the
    # resident size ourselves (a runaway once took 23 GB and the OOM killer with it) and give up on the block at 6 GB.
    errf = tempfile.TemporaryFile(mode="w+", errors="replace")
    p = subprocess.Popen(cmd, stdout=subprocess.DEVNULL, stderr=errf, env=dict(_env(), VERIF_WATCHDOG_SCALE="60"))
    t0 = time.time()
    verdict = None
    while p.poll() is None:
        time.sleep(0.25)
        try:
            with open("/proc/%d/status" % p.pid) as f:
                rss = [int(l.split()[1]) for l in f if l.startswith("VmRSS:")]
        except OSError:
            rss = []
        if rss and rss[0] > 6_000_000:
            verdict = "rss above 6 GB"
        elif time.time() - t0 > 3000:
            verdict = "timeout"
        if verdict:
            p.kill()
            p.wait()
            break
    errf.seek(0)
    err = errf.read()
    errf.close()
    if verdict:
        return None, verdict
    return p.returncode, err


def valgrind_case(case, timeout=600):
    binary = os.path.join(B.BUILD, "gzero", "simzone")
    os.makedirs(WORK, exist_ok=True)
    fd, path = tempfile.mkstemp(prefix="vgcase-", suffix=".json", dir=WORK)
    with os.fdopen(fd, "w") as f:
        json.dump(case, f)
    try:
        p = subprocess.run(VG + [binary, "replay", path], capture_output=True, text=True, env=dict(_env(), VERIF_WATCHDOG_SCALE="60"), timeout=timeout, errors="replace")
        cls = classify_valgrind(p.stderr) if p.returncode == 99 else None
        return ([cls] if cls else []), dict(rc=p.returncode, stderr=p.stderr[-4000:])
    except subprocess.TimeoutExpired:
        return [], dict(timeout=True)
    finally:
        try:
            os.remove(path)
        except OSError:
            pass
