"""What each check runs (stages per property and tier) and how results become evidence."""
import concurrent.futures as cf
import json
import os
import re
import subprocess
import threading
import time

from . import build as B
from . import runner as R

VERIF = B.VERIF

COMPONENTS = dict(
    real=["all of cctz built from the working tree: time_zone_impl.cc (name cache, mutexes), time_zone_info.cc (TZif loader, "
          "hints, conversions, built-in file source), time_zone_lookup.cc, time_zone_posix.cc, time_zone_fixed.cc, "
          "time_zone_format.cc, time_zone_if.cc, zone_info_source.cc, civil_time_detail.h", "glibc stdio buffering on top of the simulated file layer"],
    stubbed=["OS scheduler (seeded fiber scheduler)", "blocking on pthread mutexes (simulated owner table; the real lock is still taken)",
             "zone_info_source_factory / ZoneInfoSource (SimFactory/SimSource through cctz's own extension point)",
             "fopen/fread/fseek/fclose backing store (fopencookie over an in-memory tree)", "getenv", "operator new byte budget (C12 only)",
             "wall clock (clock_gettime/gettimeofday/time serve a simulated date; cctz reads none on the unchanged tree)",
             "thread-local storage (one instance per task in the clang builds, via -femulated-tls)"],
)

ASSUME_COMMON = [
    "tasks are ucontext fibers on one OS thread; a task switch can happen only at the intercepted points (mutex lock/unlock, "
    "factory entry/exit, every Read/Skip, fopen and cookie I/O, every library atomic access in the TSan build, op boundaries)",
    "function-local static initialisation is atomic w.r.t. the simulated scheduler (as the C++ ABI guarantees)",
    "the library's test-only ClearTimeZoneMapTestOnly() is used between runs so that every run starts from an empty name cache",
    "seeded search samples schedules and fault sequences; a clean batch is evidence, not proof",
]


def plan_for(prop, tier):
    q = tier != "thorough"
    if prop == "C13":
        return dict(
            variants=["asan", "tsan", "gzero"], level="exploration", assumptions=ASSUME_COMMON + [
                "value oracle compares every answer with the same call on a pristine twin of the zone loaded sequentially; absolute correctness of conversions is out of scope",
                "race freedom is judged by ThreadSanitizer on fibers switched with no scheduler-induced happens-before"],
            rule="cases: k in {2,3,4,8} (TSan: up to 64) task scripts of loads/lookups/conversions/transition scans/format/parse over 1-5 names "
                 "(healthy, absent, rejected, fixed-offset, UTC) under a per-run chooser (uniform/sticky/PCT/window). A run is non-trivial iff two tasks "
                 "had overlapping loads of one name or a mutex was contended (every cold-start run counts: it is the only execution of a fresh process, so statics and singletons are initialised under contention); distinct = distinct (schedule trace, script) hashes among those",
            stages=[
                dict(kind="worker", name="asan", variant="asan", part="", runs=100000 if q else 2500000, block=1000, hash_mod=50, key_mod=1 if q else 16),
                dict(kind="worker", name="tsan", variant="tsan", part="", runs=100000 if q else 2000000, block=1000, hash_mod=50, key_mod=1 if q else 16),
                dict(kind="worker", name="tsan-weak-hash", variant="tsan", part="", runs=20000 if q else 400000, block=1000, hash_mod=50, key_mod=1 if q else 16, extra=["--weak-hash"]),
                dict(kind="worker", name="cold-start-tsan", variant="tsan", part="cold", runs=1500 if q else 30000, block=1, hash_mod=25, key_mod=1, extra=["--cold"], recheck_block=1),
                dict(kind="worker", name="cold-start-asan", variant="asan", part="cold", runs=500 if q else 10000, block=1, hash_mod=25, key_mod=1, extra=["--cold"], recheck_block=1),
                dict(kind="worker", name="exit-while-running-tsan", variant="tsan", part="exit", runs=600 if q else 12000, block=1, hash_mod=25, key_mod=1, extra=["--cold"], recheck_block=1),
                dict(kind="worker", name="exit-while-running-asan", variant="asan", part="exit", runs=300 if q else 6000, block=1, hash_mod=25, key_mod=1, extra=["--cold"], recheck_block=1),
                dict(kind="worker", name="tmpl3-seeded", variant="gzero", part="tmpl3", runs=4000 if q else 40000, block=500, hash_mod=0, key_mod=1, template="k3"),
                dict(kind="enumerate", name="k3-exhaustive", variant="asan", k=3, names=1, fy=False, template="k3"),
                dict(kind="enumerate", name="k3-exhaustive-tsan", variant="tsan", k=3, names=1, fy=False),
                dict(kind="enumerate", name="k4-exhaustive-symm", variant="asan", k=4, names=1, fy=False, symmetry=True, shard_depth=5),
            ] + ([] if q else [dict(kind="enumerate", name="k4-exhaustive-symm-tsan", variant="tsan", k=4, names=1, fy=False, symmetry=True, shard_depth=5)]))
    if prop == "C20":
        return dict(
            variants=["asan", "gzero"], level="exploration", assumptions=ASSUME_COMMON + [
                "invariants are recorded online inside the strong zone_info_source_factory definition (name, task, sequence numbers, invocations in flight)",
                "serial execution is judged for the factory function only, as the contract states; overlapping reads of two returned sources are counted, not judged"],
            rule="cases: k in {2,3,4,8} tasks doing first loads of overlapping sets of 1-4 fresh names (healthy, absent, rejected), UTC/fixed-offset names, "
                 "fixed_time_zone/utc_time_zone/local_time_zone, then repeat loads; the factory yields 0-3 times between entry and exit. Non-trivial iff two "
                 "tasks had overlapping loads of one name or a mutex was contended; distinct = distinct (schedule trace, script) hashes among those",
            stages=[
                dict(kind="worker", name="asan", variant="asan", part="", runs=120000 if q else 3000000, block=1000, hash_mod=50, key_mod=1 if q else 16),
                dict(kind="worker", name="asan-weak-hash", variant="asan", part="", runs=20000 if q else 500000, block=1000, hash_mod=50, key_mod=1 if q else 16, extra=["--weak-hash"]),
                dict(kind="worker", name="tmpl3f-seeded", variant="gzero", part="tmpl3f", runs=4000 if q else 40000, block=500, hash_mod=0, key_mod=1, template="k3f"),
                dict(kind="enumerate", name="k3-factory-yields-exhaustive", variant="asan", k=3, names=1, fy=True, template="k3f"),
                dict(kind="enumerate", name="k3-two-names-exhaustive", variant="asan", k=3, names=2, fy=True),
                dict(kind="enumerate", name="k4-factory-yields-exhaustive-symm", variant="asan", k=4, names=1, fy=True, symmetry=True, shard_depth=6),
            ] + ([] if q else [dict(kind="enumerate", name="k4-one-name-exhaustive-symm", variant="asan", k=4, names=1, fy=False, symmetry=True, shard_depth=5)]))
    if prop == "C14":
        return dict(
            variants=["asan", "tsan"], level="exploration", assumptions=ASSUME_COMMON + [
                "the reference for every checked answer is a pristine twin: the same bytes loaded under a fresh name whose very first query is that one (memoised per zone and query within a worker process)",
                "hint values are produced only by preceding public queries, never forged",
                "'no data-source access' is judged by the counting SimFactory with the real-time rule: a factory call for a name is a violation only if some load of that name had already returned before the calling load was invoked"],
            rule="part enum: for a panel of zones every reachable hint state (one per interval between consecutive transitions, stored no-ops and the generated 401-year extension included) is set by a "
                 "lookup(tp)+lookup(cs) pair and followed by ~40 probes around that interval, its neighbours, both ends and the 400-year seam; part random: 60-600 (thorough 2000) mixed calls with locality, "
                 "every 16th answer checked against a fresh twin and all of them against a twin asked in reverse order; part cacheB: load/query/catalogue-toggle scripts (absent<->present, corrupt<->healthy, eio<->ok) in 1-4 tasks; "
                 "part hints: 2-4 tasks sharing one zone on the TSan build with yields at every hint access. Non-trivial iff at least one answer was checked (enum/random), a load followed a toggle or overlapped another (cacheB), "
                 "or tasks interleaved (hints); distinct = distinct (zone, hint state) / history hashes",
            stages=[
                dict(kind="worker", name="enum-hint-states", variant="asan", part="enum", runs=-1, block=100, hash_mod=97, key_mod=1),
                dict(kind="worker", name="random-histories", variant="asan", part="random", runs=6000 if q else 150000, block=100, hash_mod=50, key_mod=1),
                dict(kind="order", name="load-order-vs-single-zone-process", variant="asan", part="order", runs=10000 if q else 250000, block=100, hash_mod=50, key_mod=1),
                dict(kind="worker", name="cacheB", variant="asan", part="", runs=80000 if q else 2000000, block=1000, hash_mod=50, key_mod=1 if q else 16),
                dict(kind="worker", name="cacheB-weak-hash", variant="asan", part="", runs=20000 if q else 500000, block=1000, hash_mod=50, key_mod=1 if q else 16, extra=["--weak-hash"]),
                dict(kind="worker", name="hints-multitask-tsan", variant="tsan", part="hints", runs=60000 if q else 1500000, block=1000, hash_mod=50, key_mod=1 if q else 16),
            ])
    if prop == "C19":
        return dict(
            variants=["asan"], level="fault_enumeration", assumptions=ASSUME_COMMON + [
                "the file system is an in-memory tree behind a wrapped fopen returning fopencookie streams (glibc's real fread/fseek/fclose run on top); the environment is a wrapped getenv",
                "the reference resolution model is written from the documentation and the statement (about 40 lines); where the statement is silent and the quantifier names the case (empty TZDIR) it follows the shipped behaviour: an empty TZDIR counts as unset",
                "validity of every stored image is known by construction (marker zones whose abbreviation and offset encode the path they were stored at; bad magic; leap-second record; truncated; empty; v1-only; a shipped zone), never by asking cctz",
                "Android/Fuchsia fall-back paths are absent from every world; names beginning with 'libc:' are not generated (internal test-only interface)",
                "under injected faults the oracle is relaxed to: model outcome or a clean failure (false, UTC) - never success with wrong data or a wrong name"],
            rule="part cross: the full product TZDIR(6: unset, empty, valid, nonexistent, trailing slash, relative) x TZ(19: unset, empty, X, :X, ::X, localtime, :localtime, ':', invalid, absolute, fixed-offset, UTC, file:X, :TruncNL, and five values that merely resemble 'localtime') x LOCALTIME(5) "
                 "x 64 names (relative, nested, absolute, file:-prefixed, empty, ':'-prefixed, UTC/UTC0/fixed and near misses, directory, unreadable, truncated (in the data, in the footer, closing newline missing), leap-second, bad magic, empty file, v1-only, real zone, trailing slash, ./ and ../ components, leading/trailing blanks, non-ASCII, 300-character names, POSIX-TZ look-alikes, case variants, embedded NUL characters, localtime), "
                 "each world asking load(name), local_time_zone() and a default-constructed zone, then replayed with a different read chunk size; part random: random worlds of 1-6 ops; part faulted: random worlds with fopen errno faults by open index, "
                 "cookie read errors (EIO/EINTR, persistent or transient) by byte offset, failing seeks, FIFOs and chunk sizes 1..65536. Every world is non-trivial (it resolves at least one name); distinct = distinct (environment, ops, faults, chunk) hashes",
            stages=[
                dict(kind="worker", name="before-main-worlds", variant="asan", part="premain", runs=-1, block=1, hash_mod=1, key_mod=1, extra=["--cold"], recheck_block=1),
                dict(kind="worker", name="cross-product", variant="asan", part="cross", runs=-1, block=500, hash_mod=50, key_mod=1),
                dict(kind="worker", name="random-worlds", variant="asan", part="random", runs=40000 if q else 1500000, block=1000, hash_mod=50, key_mod=1 if q else 16),
                dict(kind="worker", name="faulted-worlds", variant="asan", part="faulted", runs=150000 if q else 4000000, block=1000, hash_mod=50, key_mod=1 if q else 16),
                dict(kind="worker", name="platform-fallback-worlds", variant="asan", part="platform", runs=30000 if q else 800000, block=1000, hash_mod=50, key_mod=1 if q else 16),
            ])
    if prop == "C12":
        return dict(
            variants=["asan", "gzero", "gpat"], level="fault_enumeration", assumptions=ASSUME_COMMON + [
                "storage faults are explicit byte transforms of a well-formed base (shipped file or synthetic recipe); stream faults are injected by SimSource",
                "memory safety / UB are judged by ASan and by UBSan handlers wrapped at link time (every report is attributed to its run, never de-duplicated)",
                "a sample of runs is additionally executed on the uninstrumented build under valgrind memcheck; only reports with a cctz frame are judged",
                "reads of uninitialised automatics are judged by the digest differential between g++ -ftrivial-auto-var-init=zero and =pattern builds, heap by M_PERTURB between two loads in one process; MSan is unusable here",
                "termination is judged by a cap on stream calls, a scheduler step cap and a CPU-time watchdog (6 s against a typical 1 ms)",
                "loads whose header asks for more than the heap budget (8 or 64 MiB) are skipped under the property's memory proviso and counted"],
            rule="cases: a base image (598 shipped files, synthetic well-formed recipes, synthetic self-consistent out-of-spec recipes) with 0-3 storage faults "
                 "(trunc, flip, set, zero/ff runs, splice, dup/drop block, header-count / type-index / abbr-index / utoff / isdst / 8-byte-time edits, version, footer from the POSIX-TZ grammar "
                 "or a near miss) and stream faults (eio@k, short@k, three Skip behaviours); part 'sweep' enumerates trunc@k and eio@k for every k of a panel of bases, part 'flips' every single-bit flip "
                 "of the whole file (headers, both blocks, indicator bytes, footer). Non-trivial iff the bytes differ from the base or a stream fault fired (out-of-spec recipes always count); distinct = distinct (faulted bytes, stream faults) hashes",
            stages=[
                dict(kind="worker", name="asan-random", variant="asan", part="", runs=100000 if q else 3000000, block=1000, hash_mod=50, key_mod=1 if q else 16),
                dict(kind="worker", name="asan-sweep-trunc-eio", variant="asan", part="sweep", runs=-1, block=500, hash_mod=50, key_mod=1),
                dict(kind="digestdiff", name="gzero-vs-gpat", part="", runs=100000 if q else 1500000, block=2000),
                dict(kind="valgrind", name="memcheck-sample", part="", first=0, stride=6151, count=40 if q else 250, blocks=16 if q else 64),
            ] + ([] if q else [dict(kind="worker", name="asan-flips", variant="asan", part="flips", runs=-1, block=2000, hash_mod=200, key_mod=4),
                               dict(kind="digestdiff", name="gzero-vs-gpat-sweep", part="sweep", runs=-1, block=2000)]))
    return None


def part_size(variant, prop, part, tier):
    binary = os.path.join(B.BUILD, variant, "simzone")
    p = subprocess.run([binary, "count", "--prop", prop, "--part", part, "--tier", tier], capture_output=True, text=True, env=R._env(), timeout=300)
    try:
        return int(p.stdout.strip().split("\n")[-1])
    except ValueError:
        return 0


def stage_digestdiff(st, prop, tier, seed, say):
    runs = st["runs"]
    if runs < 0:
        runs = part_size("gzero", prop, st["part"], tier)
    out = dict(machinery=[], violations=[], evaluations=0, keys=[], samples=[], fault_fired={}, probes={})
    res = {}
    t0 = time.time()
    for variant in ("gzero", "gpat"):
        r = R.run_stage(variant, prop, tier, seed, st["part"], runs, st["block"], extra=["--digests"], samples=0)
        res[variant] = r
        out["machinery"] += r.machinery
        out["violations"] += r.violations
        out["evaluations"] += r.runs
    a, b = res["gzero"].digests, res["gpat"].digests
    mism = sorted(k for k in a if k in b and a[k] != b[k])
    for k in mism[:50]:
        out["violations"].append(dict(run=k, cls="c12:nondeterminism(builds)", site="outcome digest differs between -ftrivial-auto-var-init=zero and =pattern builds",
                                      detail="%s vs %s" % (a[k], b[k]), tags=[], case=None, variant="gzero", part=st["part"], rerun_same=True, differential=True, block=st["block"]))
    out["keys"] = ["d:" + v for v in set(a.values())]
    out["record"] = dict(name=st["name"], builds=["gzero", "gpat"], runs_each=runs, compared=len(set(a) & set(b)), digest_mismatches=len(mism),
                         distinct_outcome_digests=len(set(a.values())), wall_s=round(time.time() - t0, 1))
    say("  stage %-28s runs=2x%d compared=%d mismatches=%d (%.1fs)" % (st["name"], runs, len(set(a) & set(b)), len(mism), time.time() - t0))
    return out


def run_enumerate(stage, prop, say):
    binary = os.path.join(B.BUILD, stage["variant"], "simzone")
    k = stage["k"]
    base = [binary, "enumerate", "--prop", prop, "--k", str(k), "--names", str(stage["names"])]
    if stage.get("fy"):
        base.append("--fy")
    if stage.get("symmetry"):
        base.append("--symmetry")
    shards = [""]
    if stage.get("shard_depth"):
        # One cheap pass that only branches in the first D free steps lists every (symmetry-reduced) prefix of that depth.
        p = subprocess.run(base + ["--max-depth", str(stage["shard_depth"]), "--limit", "100000"], capture_output=True, text=True, env=R._env(), timeout=600, errors="replace")
        d = [j for j in R.parse_lines(p.stdout) if j.get("done")]
        if d and d[0].get("prefixes"):
            shards = sorted(set(",".join(str(x) for x in pf) for pf in d[0]["prefixes"]))
    elif stage.get("shards", 1) > 1:
        shards = ["%d,%d" % (a, b) for a in range(k) for b in range(k)]
    limit = stage.get("limit", 50000000)
    if stage.get("quick_limit"):
        limit = stage["quick_limit"]
    per = max(1, limit // len(shards)) if not stage.get("shard_depth") else limit

    def one(prefix):
        cmd = base + ["--limit", str(per)]
        if prefix:
            cmd += ["--prefix", prefix]
        p = subprocess.run(cmd, capture_output=True, text=True, env=R._env(), timeout=3600, errors="replace")
        ls = R.parse_lines(p.stdout)
        done = [j for j in ls if j.get("done")]
        crash = [j for j in ls if "crash" in j]
        return done[0] if done else None, crash, p

    t0 = time.time()
    with cf.ThreadPoolExecutor(max_workers=R.NPROC) as ex:
        outs = list(ex.map(one, shards))
    total = dict(enumerated=0, violating=0, traces=set(), exhausted=True, violations=[], machinery=[], stats={})
    for done, crash, p in outs:
        if done is None:
            if crash:
                cls, info = R.classify_crash(crash[0], p.stderr)
                total["violations"].append(dict(run=crash[0].get("run", -1), cls=cls, site=info[:200], detail="during schedule enumeration", tags=[],
                                                case=None, variant=stage["variant"], part="", rerun_same=True, crash=True, no_case=True))
            else:
                total["machinery"].append("enumerate died rc=%s: %s" % (p.returncode, p.stderr[-1500:]))
            total["exhausted"] = False
            continue
        total["enumerated"] += done["enumerated"]
        total["violating"] += done["violating"]
        total["traces"].update(done["traces"])
        total["exhausted"] = total["exhausted"] and done["exhausted"]
        for kk, vv in done.get("stats", {}).items():
            total["stats"][kk] = total["stats"].get(kk, 0) + vv
        fv = done.get("first_violation")
        if fv:
            for v in fv["violations"]:
                total["violations"].append(dict(run=fv["run"], cls=v["class"], site=v["site"], detail=v["detail"], tags=[], case=fv["case"],
                                                variant=stage["variant"], part="", rerun_same=True))
    total["wall"] = time.time() - t0
    say("  stage %-28s enumerated=%d exhausted=%s violating=%d (%.1fs)" % (stage["name"], total["enumerated"], total["exhausted"], total["violating"], total["wall"]))
    return total


def execute_plan(prop, tier, seed, plan, say):
    if tier != "thorough":
        # Bound every enumeration in the quick tier: a different locking design can have far more schedules.
        for st in plan["stages"]:
            if st["kind"] == "enumerate":
                st["quick_limit"] = 1500000 if st.get("symmetry") else 400000
    violations, machinery = [], []
    cov = dict(evaluations=0, distinct_nontrivial=0, rule=plan["rule"], samples=[], stages=[], fault_fired={}, probes={},
               components=COMPONENTS, steps_total=0,
               simulated_seconds_total=0,
               simulated_time_note="cctz has no clock or timers, so progress is reported as logical steps (yield points executed); simulated_seconds_total is the "
                                   "simulated calendar time that passed between calls (conc engine: seconds to days between ops; C14 histories: 40 days per call)")
    keys = set()
    template_sigs = {}
    seeded_sigs = {}
    t_all = time.time()
    stop = threading.Event()
    known = R.load_known()
    # quick tier: stop scheduling new worker blocks as soon as a violation that is not a listed finding shows up
    stop_pred = (lambda v: not v["cls"].startswith("machinery:") and R.match_known(prop, v, known) is None) if tier == "quick" else None
    for st in plan["stages"]:
        if st["kind"] == "worker":
            if st["runs"] < 0:
                st = dict(st, runs=part_size(st["variant"], prop, st["part"], tier))
            res = R.run_stage(st["variant"], prop, tier, seed, st["part"], st["runs"], st["block"], hash_mod=st.get("hash_mod", 0),
                              key_mod=st.get("key_mod", 1), samples=1, stop=stop, extra=st.get("extra", ()), stop_pred=stop_pred)
            rec = R.determinism_recheck(st["variant"], prop, tier, seed, st["part"], st["runs"], st["block"], st.get("hash_mod", 0), res,
                                        extra=st.get("extra", ()), recheck_block=st.get("recheck_block")) if not res.violations else dict(n=0, mismatches=0, skipped="violations present")
            if rec.get("mismatches"):
                # Different block shapes disagree.  Is each run at least a function of its position in its block?  Re-execute
                # the original shape: if that agrees with the first pass, the library keeps state from run to run that the
                # harness does not reset (legitimate for a library to do; recorded, not failed).  If even the same shape
                # disagrees, the simulation itself is not deterministic: machinery fault.
                same = R.determinism_recheck(st["variant"], prop, tier, seed, st["part"], st["runs"], st["block"], st.get("hash_mod", 0), res,
                                             extra=st.get("extra", ()), recheck_block=st["block"], all_blocks=True)
                rec["same_shape"] = same
                if same.get("mismatches") or not same.get("n"):
                    machinery.append("determinism recheck: %d of %d re-executed runs produced a different log hash (stage %s, runs %s), and %s of %s did so even in identically shaped blocks" % (
                        rec["mismatches"], rec["n"], st["name"], rec.get("mismatch_runs"), same.get("mismatches"), same.get("n")))
                else:
                    rec["position_dependent"] = True
            machinery += res.machinery
            for v in res.violations:
                v["stage"] = st["name"]
            violations += res.violations
            cov["evaluations"] += res.runs
            cov["steps_total"] += res.stats.get("steps_total", 0)
            cov["simulated_seconds_total"] += res.stats.get("sim_seconds", 0)
            if st.get("template"):
                seeded_sigs.setdefault(st["template"], set()).update(res.keys)
            else:
                keys.update(res.keys)
            for k, v in res.stats.items():
                if k.startswith("fault."):
                    cov["fault_fired"][k[6:]] = cov["fault_fired"].get(k[6:], 0) + v
                elif k.startswith("probe."):
                    cov["probes"][k[6:]] = cov["probes"].get(k[6:], 0) + v
            srec = dict(name=st["name"], build=st["variant"], runs=res.runs, nontrivial_runs=res.nontrivial, wall_s=round(res.wall, 1),
                        runs_per_hour=int(res.runs / max(res.wall, 1e-3) * 3600), determinism_recheck=rec, key_sampling="1/%d" % st.get("key_mod", 1),
                        stats={k: v for k, v in res.stats.items() if not k.startswith(("fault.", "probe."))})
            cov["stages"].append(srec)
            for s in res.samples:
                if len(cov["samples"]) < 4:
                    cov["samples"].append(s)
            say("  stage %-28s runs=%d nontrivial=%d violating=%d recheck=%s/%s (%.1fs)" % (
                st["name"], res.runs, res.nontrivial, len(set(v["run"] for v in res.violations)), rec.get("mismatches"), rec.get("n"), res.wall))
        elif st["kind"] == "enumerate":
            tot = run_enumerate(st, prop, say)
            machinery += tot["machinery"]
            for v in tot["violations"]:
                v["stage"] = st["name"]
            violations += tot["violations"]
            cov["evaluations"] += tot["enumerated"]
            if st.get("template"):
                template_sigs[st["template"]] = tot["traces"]
            cov["stages"].append(dict(name=st["name"], build=st["variant"], enumerated_schedules=tot["enumerated"], exhaustive=tot["exhausted"],
                                      distinct_schedule_signatures=len(tot["traces"]), wall_s=round(tot["wall"], 1)))
            keys.update("e:" + st["name"] + ":" + t for t in tot["traces"])
        else:
            extra = EXTRA_STAGES[st["kind"]](st, prop, tier, seed, say)
            machinery += extra.get("machinery", [])
            for v in extra.get("violations", []):
                v["stage"] = st["name"]
            violations += extra.get("violations", [])
            cov["evaluations"] += extra.get("evaluations", 0)
            keys.update(extra.get("keys", []))
            cov["stages"].append(extra.get("record", dict(name=st["name"])))
            for s in extra.get("samples", []):
                if len(cov["samples"]) < 6:
                    cov["samples"].append(s)
            for k, v in extra.get("fault_fired", {}).items():
                cov["fault_fired"][k] = cov["fault_fired"].get(k, 0) + v
            for k, v in extra.get("probes", {}).items():
                cov["probes"][k] = cov["probes"].get(k, 0) + v
        if violations and tier == "quick" and any(not v["cls"].startswith("machinery:") and R.match_known(prop, v, R.load_known()) is None for v in violations):
            say("  unlisted violation seen: remaining stages skipped")
            break
    for name, sigs in template_sigs.items():
        got = seeded_sigs.get(name, set())
        cov.setdefault("template_reach", {})[name] = dict(all_schedules=len(sigs), reached_by_seeded_search=len(sigs & got),
                                                          fraction=round(len(sigs & got) / max(1, len(sigs)), 4))
    cov["distinct_nontrivial"] = len(keys)
    cov["distinct_interleavings_measure"] = "distinct hashes of (task, yield kind) sequences combined with the script hash, among non-trivial runs; plus every enumerated template schedule"
    wall = time.time() - t_all
    cov["runs_per_hour"] = int(cov["evaluations"] / max(wall, 1e-3) * 3600)
    return dict(violations=violations, machinery=machinery, coverage=cov)


def stage_order(st, prop, tier, seed, say):
    """C14: zones loaded one after another must each look as they do in a process that loads nothing else.
    The references are taken here, one fresh process per zone, and handed to the workers in a file."""
    out = dict(machinery=[], violations=[], evaluations=0, keys=[], samples=[], fault_fired={}, probes={})
    t0 = time.time()
    path, nrefs, missing = R.single_zone_references(st["variant"])
    refs = range(nrefs)
    for b in missing:
        out["machinery"].append("no fingerprint for %s" % b)
    try:
        res = R.run_stage(st["variant"], prop, tier, seed, st["part"], st["runs"], st["block"], hash_mod=st.get("hash_mod", 0), key_mod=1, samples=1, extra=["--refs", path])
    finally:
        try:
            os.remove(path)
        except OSError:
            pass
    out["machinery"] += res.machinery
    out["violations"] += res.violations
    out["evaluations"] = res.runs
    out["keys"] = list(res.keys)
    out["samples"] = res.samples
    out["record"] = dict(name=st["name"], build=st["variant"], runs=res.runs, nontrivial_runs=res.nontrivial, single_zone_reference_processes=len(refs),
                         wall_s=round(time.time() - t0, 1), stats=res.stats)
    say("  stage %-28s runs=%d references=%d violating=%d (%.1fs)" % (st["name"], res.runs, len(refs), len(set(v["run"] for v in res.violations)), time.time() - t0))
    return out


def stage_valgrind(st, prop, tier, seed, say):
    """A sample of runs on the uninstrumented build under memcheck: uninitialised-value use and invalid
    accesses inside cctz, independent of what the heap happens to contain."""
    out = dict(machinery=[], violations=[], evaluations=0, keys=[], samples=[])
    t0 = time.time()
    blocks = [(st["first"] + i * st["stride"], st["count"]) for i in range(st["blocks"])]
    def one(b):
        return b, R.valgrind_block(prop, tier, seed, st["part"], b[0], b[1])
    with cf.ThreadPoolExecutor(max_workers=R.NPROC) as ex:
        results = list(ex.map(one, blocks))
    bad_blocks = 0
    for (start, count), (rc, err) in results:
        out["evaluations"] += count
        if rc is None:
            out["machinery"].append("valgrind block %d given up: %s" % (start, err))
            continue
        if rc not in (0, 99):
            out["machinery"].append("valgrind block %d: rc=%s %s" % (start, rc, (err or "")[-500:]))
            continue
        if rc == 99 and R.classify_valgrind(err):
            bad_blocks += 1
            # which run?  execute each one alone under memcheck
            for idx in range(start, start + count):
                case = R.generated_case("gzero", prop, tier, seed, st["part"], idx)
                classes, raw = R.valgrind_case(case)
                if classes:
                    out["violations"].append(dict(run=idx, cls=classes[0], site="memcheck report with a cctz frame", detail=raw.get("stderr", "")[-1500:], tags=[],
                                                  case=case, variant="gzero", part=st["part"], rerun_same=True, valgrind=True))
                    break
    out["record"] = dict(name=st["name"], build="gzero under valgrind memcheck", runs=out["evaluations"], blocks_with_reports=bad_blocks, wall_s=round(time.time() - t0, 1))
    say("  stage %-28s runs=%d blocks_with_cctz_reports=%d (%.1fs)" % (st["name"], out["evaluations"], bad_blocks, time.time() - t0))
    return out


EXTRA_STAGES = {"order": stage_order, "digestdiff": stage_digestdiff, "valgrind": stage_valgrind}


def _slug(s):
    return re.sub(r"[^A-Za-z0-9]+", "-", s).strip("-")[:60]


def report_violation(prop, tier, seed, cls, vs, say):
    """Gate (fresh-process reproduction), minimise, write the replay file."""
    v = vs[0]
    for cand in vs:  # prefer one with an explicit case and a clean in-process re-execution
        if cand.get("case") and cand.get("rerun_same", True):
            v = cand
            break
    variant = v["variant"]
    case = v.get("case")
    if not v.get("rerun_same", True):
        # The same case executed again in the same process behaved differently: the library kept something from the first
        # execution that the cache reset does not reach (a static, a once-only initialisation).  Fall back to the block
        # gate: the worker block up to this run, re-executed twice in fresh processes, must show the violation both times.
        if case is None:
            case = R.generated_case(variant, prop, tier, seed, v.get("part", ""), v["run"])
        if case is None or v.get("no_case"):
            return dict(machinery="violation %s in run %s did not repeat in-process and has no replayable case" % (cls, v["run"]))
        return report_block(prop, tier, seed, cls, v, case)
    if case is None and not v.get("no_case"):
        case = R.generated_case(variant, prop, tier, seed, v.get("part", ""), v["run"])
    if case is None:
        return dict(machinery="no replayable case for %s (run %s, stage %s)" % (cls, v["run"], v.get("stage")))
    if v.get("differential"):
        return report_differential(prop, tier, seed, cls, v, case)
    if v.get("valgrind"):
        classes, raw = R.valgrind_case(case)
        classes2, _ = R.valgrind_case(case)
        if cls not in classes or cls not in classes2:
            return dict(machinery="memcheck report for run %s did not reproduce (%s / %s)" % (v["run"], classes, classes2))
        cur, execs = case, 0
        for desc, cand in R._candidates(case):
            execs += 1
            c3, _ = R.valgrind_case(cand)
            if cls in c3:
                cur = cand
            if execs >= 12:
                break
        os.makedirs(os.path.join(VERIF, "replays"), exist_ok=True)
        path = os.path.join(VERIF, "replays", "%s-%s-%d-%s.json" % (prop, _slug(cls), seed, v["run"]))
        rep = dict(format=1, property=prop, build="gzero", under="valgrind", origin_seed=seed, tier=tier, stage=v.get("stage"), run_index=v["run"], **{"class": cls},
                   site=v.get("site", ""), detail=v.get("detail", "")[-1500:], case=cur, minimisation=dict(reexecutions=execs))
        with open(path, "w") as f:
            json.dump(rep, f, indent=1)
        return dict(path=path, cls=cls, site=v.get("site", ""))
    classes, raw = R.evaluate_case(variant, case, timeout=300)
    if cls not in classes and not v.get("no_case") and v.get("stage") and "enumerat" not in str(v.get("stage")) and case.get("mode") != "cold":
        # The run does not fail when executed alone in a fresh process, so it depends on something an earlier run of
        # its worker left behind in the *library* (leftover heap contents, a static the cache reset does not reach).
        # Reproduce it the way it was found: re-execute the worker block up to this run in a fresh process, twice,
        # with identical results - a worker is a pure function of the seed and the run indices.
        return report_block(prop, tier, seed, cls, v, case)
    if cls not in classes:
        return dict(machinery="fresh-process replay of run %s did not reproduce %s (got %s)" % (v["run"], cls, classes))
    if case.get("mode") == "cold":
        # cold-start cases cannot be executed twice in one process: the same-twice gate uses two fresh processes
        classes_b, raw_b = R.evaluate_case(variant, case, timeout=300)
        ha, hb = (raw.get("out") or {}).get("log_hash"), (raw_b.get("out") or {}).get("log_hash")
        if ha != hb or cls not in classes_b:
            return dict(machinery="cold-start run %s did not behave identically in two fresh processes (%s vs %s)" % (v["run"], ha, hb))
    m = re.search(r"\(task (\d+)", v.get("detail", "") or "")
    if m and isinstance(case, dict):
        case["_violating_task"] = int(m.group(1))
    small, execs = R.minimise(variant, case, cls)
    if isinstance(small, dict):
        small.pop("_violating_task", None)
    if isinstance(case, dict):
        case.pop("_violating_task", None)
    classes2, raw2 = R.evaluate_case(variant, small, want_log=True, timeout=300, twice=not v.get("crash"))
    if cls not in classes2:
        small, raw2 = case, raw
    out = (raw2.get("out") or {})
    os.makedirs(os.path.join(VERIF, "replays"), exist_ok=True)
    path = os.path.join(VERIF, "replays", "%s-%s-%d-%s.json" % (prop, _slug(cls), seed, v["run"]))
    rep = dict(format=1, property=prop, build=variant, origin_seed=seed, tier=tier, stage=v.get("stage"), run_index=v["run"],
               **{"class": cls}, site=v.get("site", ""), detail=v.get("detail", "")[:1000], case=small,
               minimisation=dict(reexecutions=execs), expect=dict(log_hash=out.get("log_hash"), events_tail=(out.get("log") or [])[-25:]))
    with open(path, "w") as f:
        json.dump(rep, f, indent=1)
    return dict(path=path, cls=cls, site=v.get("site", ""))


def _digest_of(variant, case):
    classes, raw = R.evaluate_case(variant, case, timeout=300)
    return (raw.get("out") or {}).get("digest"), classes


def report_differential(prop, tier, seed, cls, v, case):
    """Violation = the two g++ builds disagree on the outcome digest of one case."""
    def differs(c):
        d0, c0 = _digest_of("gzero", c)
        d1, c1 = _digest_of("gpat", c)
        return d0 is not None and d1 is not None and d0 != d1
    if not differs(case):
        return report_block(prop, tier, seed, cls, v, case)
    cur = case
    execs = 0
    improved = True
    t0 = time.time()
    while improved and execs < 120 and time.time() - t0 < 40:
        improved = False
        for desc, cand in R._candidates(cur):
            execs += 1
            if differs(cand):
                cur = cand
                improved = True
                break
            if execs >= 120:
                break
    os.makedirs(os.path.join(VERIF, "replays"), exist_ok=True)
    path = os.path.join(VERIF, "replays", "%s-%s-%d-%s.json" % (prop, _slug(cls), seed, v["run"]))
    rep = dict(format=1, property=prop, build="gzero", differential_with="gpat", origin_seed=seed, tier=tier, stage=v.get("stage"), run_index=v["run"],
               **{"class": cls}, site=v.get("site", ""), detail=v.get("detail", ""), case=cur, minimisation=dict(reexecutions=execs))
    with open(path, "w") as f:
        json.dump(rep, f, indent=1)
    return dict(path=path, cls=cls, site=v.get("site", ""))


def report_block(prop, tier, seed, cls, v, case):
    """Gate and report a violation that only reproduces in the context of its worker block."""
    part = v.get("part", "")
    run = v["run"]
    block = v.get("block") or 1000
    start = v.get("proc_start", (run // block) * block)
    differential = bool(v.get("differential"))
    def once():
        if differential:
            _, d0 = R.block_replay("gzero", prop, tier, seed, part, start, run, want_digest=True)
            _, d1 = R.block_replay("gpat", prop, tier, seed, part, start, run, want_digest=True)
            return (d0, d1), (d0 is not None and d1 is not None and d0 != d1)
        classes, _ = R.block_replay(v["variant"], prop, tier, seed, part, start, run, extra=[("<taken afresh>" if x.endswith(".json") else x) for x in v.get("extra", [])])
        return tuple(sorted(set(classes))), cls in classes
    a, ok_a = once()
    b, ok_b = once()
    if not (ok_a and ok_b and a == b):
        return dict(machinery="run %s: %s reproduced neither alone in a fresh process nor by re-executing its worker block from %s (%s / %s)" % (run, cls, start, a, b))
    os.makedirs(os.path.join(VERIF, "replays"), exist_ok=True)
    path = os.path.join(VERIF, "replays", "%s-%s-%d-%s.json" % (prop, _slug(cls), seed, run))
    rep = dict(format=1, property=prop, build=("gzero" if differential else v["variant"]), differential_with=("gpat" if differential else None), origin_seed=seed, tier=tier,
               stage=v.get("stage"), run_index=run, **{"class": cls}, site=v.get("site", ""), detail=v.get("detail", ""), case=case,
               block_replay=dict(part=part, start=start, run=run, extra=[("<taken afresh>" if x.endswith(".json") else x) for x in v.get("extra", [])], note="the outcome depends on what the process executed before this run (leftover heap contents, or library state that survives the cache reset); "
                                 "replay re-executes the worker from `start` to `run` in a fresh process, which is a pure function of the seed and the indices"),
               minimisation=dict(reexecutions=0, note="not minimised: the case only fails in the context of its block"))
    with open(path, "w") as f:
        json.dump(rep, f, indent=1)
    return dict(path=path, cls=cls, site=v.get("site", ""))
